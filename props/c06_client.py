"""C06, client half -- "The client library returns from a call only the reply that bears that call's id,
discarding stale or foreign replies, and reports a timeout otherwise."

Bounded-exhaustive enumeration of reply scripts against the real circus.client.CircusClient.call
(scripted socket + poller behind the `context` argument and the `_init_poller` seam) and the real
circus.client.AsyncCircusClient.call (real pyzmq ZMQStream and real tornado coroutine runner on a
virtual-time asyncio loop, over a scripted socket), judged per call by vt/refmodels/clientcall.py.

This module is imported by props/c06.py (the server half lives there); it exposes
CLIENT_RULE, CLIENT_ASSUMPTIONS, client_bounds, client_shards, run_client_shard, replay_client_case.
"""
import collections
import itertools
import json
import logging
import os

import zmq

import circus.client as CC
from circus.exc import CallError

from vt.main import EnumResult
from vt.refmodels import clientcall as REF

W_SYNC = 'client.CircusClient.call'
W_ASYNC = 'client.AsyncCircusClient.call'
WHERE = {'sync': W_SYNC, 'async': W_ASYNC}

TIMEOUT_S = 5.0                 # the clients are built with timeout=5.0 (the default)
GAP = 1.1                       # a T in a script = nothing arrives for 1.1 x timeout
LATENCY = {'0': 0.0, 'm': 0.3, 'h': 0.9}     # every message arrives this many timeouts after the previous event
ALPHABET = 'OSFDT'              # OWN, STALE, FOREIGN, DUP, TIMEOUT
FLAVOURS = ['other', 'near', 'noid', 'null']  # what a FOREIGN reply carries in place of the call's id
POLL_LIMIT = 40                 # polls per call before the check calls it a hang (longest honest call: 9)
ITER_LIMIT = 600                # loop iterations per async call (longest honest call: < 80)
EPS = 1e-6

CLIENT_RULE = (
    'client half: a case = (client class sync/async, reply script s1 for call 1, reply script s2 for call 2, '
    'latency, FOREIGN flavour); scripts are all words of length 0..L over {O own reply, S stale reply = a copy '
    'of the own reply of the previous call on the same client, F foreign reply (flavour other: an id no call '
    'ever had / near: the call\'s id with its last digit changed / noid: no id field / null: id null), D '
    'duplicate = byte-identical second copy of the own reply, T nothing arrives for 1.1 x timeout}; all pairs '
    '(s1, s2) are run, for every latency and flavour of the blocks listed under bounds; a script is played from the instant the real call() sends its request (ids are read '
    'from the request frame; uuid4 is a counter), each message becoming readable `latency` x timeout after the '
    'previous event; after the script nothing ever arrives. Every case makes three calls on one client object: a '
    'priming call answered at once (so that S in s1 has an earlier id to bear), call 1, call 2; whatever of s1 '
    'call 1 did not consume (a duplicate, an own reply that came after call 1 gave up, ...) arrives before '
    'call 2 starts and is on the socket then (with AsyncCircusClient the stream keeps reading between calls, '
    'so only what its callback failed to take is still there). The flavour is enumerated only for pairs containing an F, so cases are pairwise '
    'distinct as inputs (scripts differing only in O vs D before any O are distinct inputs with equal '
    'behaviour). Each call is judged against the reference verdict for what was actually readable during it. '
    'Non-trivial case: some call had to discard a message or sit through a silence before its verdict. '
    'Outcome = client, per call (verdict, observed result, number of messages consumed).')

CLIENT_ASSUMPTIONS = [
    'C06 client half: no daemon, no simulated kernel; the two client classes are driven directly and '
    'single-threaded. CircusClient is built by its real constructor with context=<scripted context> and '
    'circus.client.zmq.Poller replaced (module proxy, everything else is the real zmq) by a scripted poller '
    'that owns a virtual clock: poll(ms) returns [(socket, POLLIN)] as soon as a message is readable, else '
    'advances the clock by ms and returns []; recv() on an empty socket blocks until the next scripted '
    'arrival. AsyncCircusClient is built by its real constructor on a fresh virtual-time asyncio loop '
    '(vt/vloop.VLoop) with the REAL zmq.eventloop.zmqstream.ZMQStream over a scripted socket (a real pipe '
    'as its FD, EVENTS / recv_multipart / send_multipart scripted; arrivals are timers of that loop)',
    'a hang is established, not guessed: sync = poll without a timeout / blocking recv when nothing will '
    'ever arrive, or more than %d polls in one call; async = the call\'s future is unresolved while the '
    'loop has no ready callback, no readable fd and no timer left (nothing can ever wake it), or more than '
    '%d loop iterations in one call' % (POLL_LIMIT, ITER_LIMIT),
    'timeouts: where "silent for the timeout" and "deadline since the request" disagree the reference '
    'accepts both behaviours (verdict either; counted in enum_info); arrivals never sit exactly on a limit',
    'circus/client.py reads no clock of its own (it does not import time); the only clocks are the poll '
    'timeout (sync) and the IOLoop clock (async), both virtual',
    'not covered: replies that are not JSON objects (invalid JSON, arrays, scalars), multi-frame replies, zmq '
    'errors from send/poll/recv (EINTR, ETERM), several calls in flight at once on one AsyncCircusClient, ssh '
    'tunnels, the real zmq transport (the scripted async socket was compared by hand with real ROUTER/DEALER '
    'sockets on the scripts O, FO, FFO, FFFO, OF at latency 0 and on the two-call cases OOO / OFF then O: same '
    'outcomes, including both hangs listed as F17)',
    'when a call hangs the check abandons it (sync: unwinds it; async: leaves its coroutine pending, as '
    'gen.with_timeout around it would) and goes on to the next call on the same client',
]


class Hang(BaseException):
    """The code under test would never return from here."""


# ------------------------------------------------------------------------------------------ bounds

# A plan is a list of blocks per client class; a case (s1, s2, latency, flavour) is in the plan when some block
# has max(len(s1), len(s2)) <= L, the latency and the flavour.  Every case in the plan is run exactly once.
_ALL = list(FLAVOURS)
_PLANS = {
    'quick': {
        'sync': [{'L': 4, 'lat': ['0'], 'flavours': ['other']},
                 {'L': 3, 'lat': ['0', 'h'], 'flavours': _ALL}],
        'async': [{'L': 3, 'lat': ['0', 'h'], 'flavours': ['other']},
                  {'L': 2, 'lat': ['0', 'h'], 'flavours': _ALL}],
    },
    'thorough': {
        'sync': [{'L': 4, 'lat': ['0', 'h'], 'flavours': ['other']},
                 {'L': 3, 'lat': ['0', 'm', 'h'], 'flavours': _ALL}],
        'async': [{'L': 4, 'lat': ['0'], 'flavours': ['other']},
                  {'L': 3, 'lat': ['0', 'm', 'h'], 'flavours': _ALL}],
    },
}
_CHUNK = {'sync': 4, 'async': 2}          # s1 scripts per shard


def _scripts(L):
    out = []
    for n in range(L + 1):
        out.extend(''.join(p) for p in itertools.product(ALPHABET, repeat=n))
    return out


def _variants(plan, s1, s2):
    """The (latency, flavour) combinations the plan asks for on the pair (s1, s2), in a fixed order.
    The flavour only exists for pairs containing an F."""
    n = max(len(s1), len(s2))
    has_f = 'F' in s1 or 'F' in s2
    out = []
    for lat in sorted(LATENCY):
        for fl in FLAVOURS:
            if not has_f and fl != FLAVOURS[0]:
                continue
            for blk in plan:
                if n <= blk['L'] and lat in blk['lat'] and (fl in blk['flavours'] or not has_f):
                    out.append((lat, fl))
                    break
    return out


def _count(plan):
    scripts = _scripts(max(b['L'] for b in plan))
    return sum(len(_variants(plan, s1, s2)) for s1 in scripts for s2 in scripts)


def client_bounds(tier):
    b = {
        'alphabet': {'O': 'own reply', 'S': 'stale reply (own reply of the previous call)',
                     'F': 'foreign reply', 'D': 'duplicate of the own reply',
                     'T': 'no arrival for %.1f x timeout' % GAP},
        'foreign_flavours': FLAVOURS,
        'calls_per_case': '1 priming call + 2 judged calls on one client object',
        'timeout_s': TIMEOUT_S,
        'latency_x_timeout': LATENCY,
        'reading': 'all pairs (s1, s2) of scripts of length 0..L, for each listed latency and (pairs with an F '
                   'only) each listed flavour; a case covered by two blocks is run once',
    }
    for cl in ('sync', 'async'):
        plan = _PLANS[tier][cl]
        b[cl] = {'blocks': [{'script_length_max': blk['L'], 'scripts': len(_scripts(blk['L'])),
                             'latencies': blk['lat'], 'flavours': blk['flavours']} for blk in plan],
                 'cases': _count(plan)}
    return b


def client_shards(tier):
    out = []
    for cl in ('async', 'sync'):            # the slower family first
        plan = _PLANS[tier][cl]
        scripts = _scripts(max(b['L'] for b in plan))
        scripts.sort(key=lambda w: (len(w), w))      # short scripts first: the first witness kept is a small one
        chunk = _CHUNK[cl]
        for i in range(0, len(scripts), chunk):
            out.append({'client': cl, 's1': scripts[i:i + chunk]})
    return out


def _cases_of(shard, tier):
    plan = _PLANS[tier][shard['client']]
    scripts = _scripts(max(b['L'] for b in plan))
    for s1 in shard['s1']:
        for s2 in scripts:
            for lat, fl in _variants(plan, s1, s2):
                yield {'kind': 'client', 'client': shard['client'], 's1': s1, 's2': s2, 'lat': lat, 'foreign': fl}


# ------------------------------------------------------------------------------------------ scripted wire

class _FakeUUID(object):
    """circus.client.uuid for the duration of a shard: uuid4().hex is a counter."""

    class _U(object):
        def __init__(self, n):
            self.hex = '%032x' % n

    def __init__(self):
        self.n = 0

    def uuid4(self):
        self.n += 1
        return self._U(self.n)


class _ZmqProxy(object):
    """circus.client.zmq for the duration of a shard: the real module, except Poller."""

    def __init__(self, real, poller_factory):
        self._real = real
        self.Poller = poller_factory

    def __getattr__(self, name):
        return getattr(self._real, name)


Msg = collections.namedtuple('Msg', 'payload call kind')      # kind in O S F D; call = index of the call whose
#                                                               script produced it


_PAYLOADS = {}
_PARSED = {}


def _payload(kind, k, ids, flavour):
    """The bytes of one scripted reply of call k.  ids[j] = the id call j put in its request."""
    key = (kind, k, ids.get(k), ids.get(k - 1), flavour if kind == 'F' else None)
    p = _PAYLOADS.get(key)
    if p is None:
        if len(_PAYLOADS) > 10000:
            _PAYLOADS.clear()
        p = _PAYLOADS[key] = _make_payload(kind, k, ids, flavour)
    return p


def _parsed(payload):
    """json of a scripted payload (shared object: compare only, never mutate)."""
    d = _PARSED.get(payload)
    if d is None:
        if len(_PARSED) > 10000:
            _PARSED.clear()
        d = _PARSED[payload] = json.loads(payload)
    return d


def _make_payload(kind, k, ids, flavour):
    def own(j):
        return {'id': ids[j], 'status': 'ok', 'time': 1.5, 'answers_call': j}
    if kind in 'OD':
        doc = own(k)
    elif kind == 'S':
        doc = own(k - 1)
    else:
        doc = {'status': 'ok', 'time': 1.5, 'foreign_during_call': k}
        if flavour == 'other':
            doc['id'] = 'f' * 32
        elif flavour == 'near':
            cid = ids[k]
            doc['id'] = cid[:-1] + ('0' if cid[-1] != '0' else '1')
        elif flavour == 'null':
            doc['id'] = None
        # noid: no id field at all
    return json.dumps(doc, sort_keys=True).encode('ascii')


def _arrivals(script, lat):
    """[(seconds after the request, kind)] for the messages of a script."""
    t, out = 0.0, []
    for ch in script:
        if ch == 'T':
            t += GAP * TIMEOUT_S
        else:
            t += LATENCY[lat] * TIMEOUT_S
            out.append((t, ch))
    return out


class _Wire(object):
    """What both scripted sockets share: the script of the current call, the messages readable now (rx),
    the log of what the client consumed."""

    def __init__(self, flavour):
        self.flavour = flavour
        self.ids = {}               # call index -> id read from the request frame
        self.rx = collections.deque()
        self.k = -1
        self.script = ''
        self.lat = '0'
        self.sent = []              # request frames of the current call
        self.t_send = None
        self.timeline = []          # [(t_rel, Msg)] of the current call: leftovers at 0, then the script
        self.consumed = []          # Msgs the client received during the current call

    def now(self):
        raise NotImplementedError

    def schedule(self, t_abs, msg):
        raise NotImplementedError

    def begin_call(self, k, script, lat):
        self.k, self.script, self.lat = k, script, lat
        self.sent, self.t_send = [], None
        self.consumed = []
        self.timeline = [(0.0, m) for m in self.rx]

    def on_request(self, frame):
        """The client put a request on the wire: the script of this call starts now."""
        self.sent.append(frame)
        if len(self.sent) > 1:
            return
        try:
            cid = json.loads(frame.decode('utf8') if isinstance(frame, bytes) else frame).get('id')
        except Exception:
            cid = None
        self.ids[self.k] = cid if isinstance(cid, str) and cid else 'no-id-in-request-%d' % self.k
        self.t_send = self.now()
        for t_rel, kind in _arrivals(self.script, self.lat):
            msg = Msg(_payload(kind, self.k, self.ids, self.flavour), self.k, kind)
            self.timeline.append((t_rel, msg))
            self.schedule(self.t_send + t_rel, msg)

    def take(self):
        msg = self.rx.popleft()
        self.consumed.append(msg)
        return msg.payload


# ---- blocking client: scripted DEALER socket + poller, virtual clock owned by the poller

class _SyncWire(_Wire):
    def __init__(self, flavour):
        _Wire.__init__(self, flavour)
        self.t = 0.0
        self.pending = []           # [(t_abs, Msg)] in arrival order
        self.polls = 0
        self.poll_args = []

    def now(self):
        return self.t

    def schedule(self, t_abs, msg):
        self.pending.append((t_abs, msg))

    def advance(self, to):
        if to > self.t:
            self.t = to
        while self.pending and self.pending[0][0] <= self.t + EPS:
            self.rx.append(self.pending.pop(0)[1])

    def settle(self):
        """Between two calls: everything still on its way arrives."""
        if self.pending:
            self.advance(self.pending[-1][0])
        self.t += 1.0

    def begin_call(self, k, script, lat):
        self.settle()
        self.polls, self.poll_args = 0, []
        _Wire.begin_call(self, k, script, lat)


class _SyncSocket(object):
    def __init__(self, wire, kind):
        self.wire = wire
        self.kind = kind
        self.closed = False
        self.opts = []
        self.endpoints = []

    def setsockopt(self, opt, value):
        self.opts.append((opt, value))

    def connect(self, endpoint):
        self.endpoints.append(endpoint)

    def disconnect(self, endpoint):
        pass

    def send(self, data, flags=0, **kw):
        if self.closed:
            raise zmq.ZMQError(zmq.ENOTSOCK)
        self.wire.on_request(data)

    def recv(self, flags=0, **kw):
        w = self.wire
        w.advance(w.t)
        if not w.rx:
            if flags & zmq.NOBLOCK:
                raise zmq.Again()
            if not w.pending:
                raise Hang('blocking recv() on an empty socket and nothing will ever arrive')
            w.advance(w.pending[0][0])
        return w.take()

    def close(self, *a, **kw):
        self.closed = True


class _SyncPoller(object):
    def __init__(self, wire):
        self.wire = wire
        self.registered = []

    def register(self, socket, flags=zmq.POLLIN | zmq.POLLOUT):
        self.registered.append((socket, flags))

    def poll(self, timeout=None):
        w = self.wire
        w.polls += 1
        w.poll_args.append(timeout)
        if w.polls > POLL_LIMIT:
            raise Hang('more than %d polls in one call' % POLL_LIMIT)
        ready = [(s, zmq.POLLIN) for s, f in self.registered if f & zmq.POLLIN]
        w.advance(w.t)
        if w.rx:
            return ready
        nxt = w.pending[0][0] if w.pending else None
        if timeout is None or timeout < 0:
            if nxt is None:
                raise Hang('poll() without a timeout and nothing will ever arrive')
            w.advance(nxt)
            return ready
        deadline = w.t + timeout / 1000.0
        if nxt is not None and nxt <= deadline:
            w.advance(nxt)
            return ready
        w.advance(deadline)
        return []


class _Context(object):
    def __init__(self, make_socket):
        self.make_socket = make_socket
        self.sockets = []

    def socket(self, kind, *a, **kw):
        s = self.make_socket(kind)
        self.sockets.append(s)
        return s


# ---- tornado client: the real ZMQStream over a scripted socket with a real fd, on a virtual-time loop

class _AsyncWire(_Wire):
    def __init__(self, flavour, loop, clock):
        _Wire.__init__(self, flavour)
        self.loop = loop
        self.clock = clock
        self.sock = None
        self.handles = []

    def now(self):
        return self.clock.now

    def schedule(self, t_abs, msg):
        self.handles.append(self.loop.call_at(t_abs, self._arrive, msg))

    def _arrive(self, msg):
        self.rx.append(msg)
        self.sock.signal()


class _AsyncSocket(object):
    """What ZMQStream needs of a zmq.Socket: FD / fileno() (read end of a real pipe, made readable on every
    arrival and drained when EVENTS is read, like zmq's edge-triggered fd), EVENTS, recv_multipart(NOBLOCK),
    send_multipart, closed, close."""

    def __init__(self, wire, kind):
        self.wire = wire
        self.kind = kind
        self.closed = False
        self._r, self._w = os.pipe()
        os.set_blocking(self._r, False)
        os.set_blocking(self._w, False)
        self.FD = self._r
        wire.sock = self

    def fileno(self):
        return self._r

    def signal(self):
        if not self.closed:
            os.write(self._w, b'x')

    def _events(self):
        if self.closed:
            raise zmq.ZMQError(zmq.ENOTSOCK)
        try:
            while os.read(self._r, 64):
                pass
        except BlockingIOError:
            pass
        return zmq.POLLOUT | (zmq.POLLIN if self.wire.rx else 0)

    EVENTS = property(_events)
    events = property(_events)

    def getsockopt(self, opt):
        if opt == zmq.EVENTS:
            return self._events()
        if opt == zmq.FD:
            return self._r
        return 0

    def setsockopt(self, opt, value):
        pass

    setsockopt_string = getsockopt_string = setsockopt_unicode = getsockopt_unicode = setsockopt
    bind = bind_to_random_port = setsockopt

    def connect(self, endpoint):
        pass

    def disconnect(self, endpoint):
        pass

    def recv_multipart(self, flags=0, copy=True, track=False):
        if self.closed:
            raise zmq.ZMQError(zmq.ENOTSOCK)
        if not self.wire.rx:
            if flags & zmq.NOBLOCK:
                raise zmq.Again()
            raise Hang('blocking recv_multipart() on an empty socket')
        return [self.wire.take()]

    def send_multipart(self, msg_parts, flags=0, copy=True, track=False, **kw):
        if self.closed:
            raise zmq.ZMQError(zmq.ENOTSOCK)
        self.wire.on_request(msg_parts[0])
        return None

    def send(self, data, flags=0, **kw):
        return self.send_multipart([data], flags)

    def close(self, linger=None):
        if not self.closed:
            self.closed = True
            os.close(self._r)
            os.close(self._w)


class _LogTrap(logging.Handler):
    """Collects (and keeps off the terminal) what tornado / pyzmq log while a case runs."""

    NAMES = ('tornado.general', 'tornado.application', 'tornado.access', 'asyncio')

    def __init__(self):
        logging.Handler.__init__(self)
        self.records = []
        self.saved = []

    def emit(self, record):
        # only exceptions logged as errors are kept (by type name): what else is logged depends on logger
        # levels other parts of the framework may have set in this worker process
        exc = record.exc_info[1] if record.exc_info else None
        if exc is not None and record.levelno >= logging.ERROR:
            self.records.append(type(exc).__name__)

    def __enter__(self):
        for n in self.NAMES:
            lg = logging.getLogger(n)
            self.saved.append((lg, lg.propagate, lg.level))
            lg.addHandler(self)
            lg.propagate = False
        return self

    def __exit__(self, *a):
        for lg, prop, level in self.saved:
            lg.removeHandler(self)
            lg.propagate = prop
        self.saved = []


# ------------------------------------------------------------------------------------------ running a case

Observed = collections.namedtuple('Observed', 'k script verdict timeline consumed result value exc hang '
                                              'elapsed sent polls errors')


class _Patched(object):
    """circus.client.uuid / .zmq replaced for the duration of a shard (or one replay)."""

    def __init__(self):
        self.uuid = _FakeUUID()
        self.wire = None
        self.saved = None
        self.trap = _LogTrap()

    def __enter__(self):
        self.saved = (CC.uuid, CC.zmq)
        CC.uuid = self.uuid
        CC.zmq = _ZmqProxy(self.saved[1], lambda: _SyncPoller(self.wire))
        self.trap.__enter__()
        return self

    def __exit__(self, *a):
        self.trap.__exit__()
        CC.uuid, CC.zmq = self.saved


def _request():
    return {'command': 'numwatchers', 'properties': {}}


def _observe(wire, k, script, result, value, exc, hang, polls, errors):
    timeline = list(wire.timeline)
    own = [(t, m.call == k and m.kind in 'OD') for t, m in timeline]
    verdict = REF.expected(own, TIMEOUT_S)
    elapsed = None if wire.t_send is None else wire.now() - wire.t_send
    return Observed(k, script, verdict, timeline, list(wire.consumed), result, value, exc, hang, elapsed,
                    len(wire.sent), polls, errors)


def _run_sync(case, patched):
    wire = _SyncWire(case['foreign'])
    patched.wire = wire
    patched.uuid.n = 0
    ctx = _Context(lambda kind: _SyncSocket(wire, kind))
    client = CC.CircusClient(context=ctx, timeout=TIMEOUT_S)
    out = []
    for k, script, lat in ((0, 'O', '0'), (1, case['s1'], case['lat']), (2, case['s2'], case['lat'])):
        wire.begin_call(k, script, lat)
        result, value, exc, hang = None, None, None, None
        try:
            value = client.call(_request())
            result = 'return'
        except CallError as e:
            result, exc = 'raise', ('CallError', str(e))
        except Hang as e:
            result, hang = 'hang', str(e)
        except Exception as e:
            result, exc = 'raise', (type(e).__name__, str(e)[:120])
        out.append(_observe(wire, k, script, result, value, exc, hang, wire.polls, []))
    try:
        client.stop()
    except Exception:
        pass
    return out


def _drive(loop, clock, fut):
    """Run the virtual-time loop until the call's future resolves or provably never will."""
    it = 0
    while not fut.done():
        it += 1
        if it > ITER_LIMIT:
            return 'more than %d loop iterations in one call' % ITER_LIMIT, it
        if loop.runnable_now():
            loop.iterate()
            continue
        t = loop.next_timer()
        if t is None:
            return ('the call is pending and the loop has no ready callback, no readable fd and no timer: '
                    'nothing can ever wake it'), it
        clock.advance_to(t)
        loop.iterate()
    return None, it


def _run_async(case, patched):
    from tornado import ioloop
    from vt.clock import CLOCK
    from vt.vloop import VLoop, make_current, unmake_current
    CLOCK.reset()
    patched.uuid.n = 0
    loop = VLoop()
    make_current(loop)
    out = []
    io = client = ctx = None
    trap = patched.trap
    try:
        io = ioloop.IOLoop.current()
        wire = _AsyncWire(case['foreign'], loop, CLOCK)
        ctx = _Context(lambda kind: _AsyncSocket(wire, kind))
        client = CC.AsyncCircusClient(context=ctx, timeout=TIMEOUT_S)
        for k, script, lat in ((0, 'O', '0'), (1, case['s1'], case['lat']), (2, case['s2'], case['lat'])):
            # between two calls: everything still on its way arrives
            while loop.next_timer() is not None:
                CLOCK.advance_to(loop.next_timer())
                loop.iterate()
            for _ in range(50):
                if not loop.runnable_now():
                    break
                loop.iterate()
            CLOCK.advance_to(CLOCK.now + 1.0)
            del trap.records[:]
            wire.begin_call(k, script, lat)
            result, value, exc, hang, its = None, None, None, None, 0
            try:
                fut = client.call(_request())
                hang, its = _drive(loop, CLOCK, fut)
                if hang is not None:
                    result = 'hang'
                else:
                    value = fut.result()
                    result = 'return'
            except CallError as e:
                result, exc = 'raise', ('CallError', str(e))
            except Hang as e:
                result, hang = 'hang', str(e)
            except Exception as e:
                result, exc = 'raise', (type(e).__name__, str(e)[:120])
            out.append(_observe(wire, k, script, result, value, exc, hang, its, sorted(set(trap.records))))
    finally:
        try:
            if client is not None:
                client.stop()
        except Exception:
            pass
        for s in (ctx.sockets if ctx is not None else []):
            s.close()
        try:
            if io is not None:
                io.close()
        except Exception:
            pass
        try:
            loop.close()
        except Exception:
            pass
        unmake_current()
    return out


# ------------------------------------------------------------------------------------------ judging

def _kind_name(m, k):
    if m.call == k:
        return {'O': 'own', 'D': 'own(duplicate)', 'S': 'stale', 'F': 'foreign'}[m.kind]
    return 'leftover-of-call-%d(%s)' % (m.call, m.kind)


def _fmt_timeline(o):
    return '[' + ', '.join('%s@%.1f' % (_kind_name(m, o.k), t) for t, m in o.timeline) + ']'


def _judge(case, obs, prev_hung):
    """-> list of (clause, ok, shape, detail, nontrivial) for one observed call."""
    cl = case['client']
    v = obs.verdict
    out = []
    own_payloads = [_parsed(m.payload) for t, m in obs.timeline if m.call == obs.k and m.kind in 'OD']
    had_to_wait = v.discarded > 0 or v.kind != REF.RETURN or obs.timeline[v.index][0] > 0

    def detail(shape, text):
        return ('shape=%s client=%s verdict=%s | call %d of case s1=%r s2=%r latency=%sxT foreign=%s: readable during '
                'the call %s, then nothing; reference: %s; observed: %s after %s s, %d message(s) consumed, '
                '%d request(s) sent%s%s -- %s'
                % (shape, cl, v.kind, obs.k, case['s1'], case['s2'], LATENCY[case['lat']], case['foreign'],
                   _fmt_timeline(obs),
                   {'return': 'return message #%s' % v.index,
                    'timeout': 'CallError by t=%.1f' % v.give_up_by,
                    'either': 'return message #%s or CallError by t=%.1f' % (v.index, v.give_up_by)}[v.kind],
                   obs.result + ((' %s(%r)' % obs.exc) if obs.exc else '') + ((' [%s]' % obs.hang) if obs.hang else ''),
                   ('%.2f' % obs.elapsed) if obs.elapsed is not None else '?', len(obs.consumed), obs.sent,
                   (', logged: %s' % ','.join(obs.errors)) if obs.errors else '',
                   ', previous call abandoned while pending' if prev_hung else '', text))

    # ---- C06.returns_own_only: whatever call() returns is the own reply of THIS call
    if obs.result == 'return':
        ok = isinstance(obs.value, dict) and obs.value in own_payloads and \
            any(m.call == obs.k and m.kind in 'OD' for m in obs.consumed)
        shape = 'ok'
        if not ok:
            shape = 'returned_unknown'
            for m in obs.consumed:
                if _parsed(m.payload) == obs.value:
                    shape = 'returned_%s' % (_kind_name(m, obs.k).split('(')[0].replace('-of-call-%d' % m.call, ''))
                    if m.kind == 'F':
                        shape += ':' + case['foreign']
                    break
            if obs.sent == 0:
                shape = 'no_request_sent'
        sh_r = shape
        out.append(('C06.returns_own_only', ok, sh_r,
                    lambda: detail(sh_r, 'call() returned %r, which is not the reply bearing this call\'s id %r'
                                   % (obs.value, own_payloads[0]['id'] if own_payloads else None)),
                    v.discarded > 0))

    # ---- C06.timeout_reported
    ok, shape, text = True, 'ok', ''
    errs = (':%s_in_stream_callback' % '+'.join(obs.errors)) if obs.errors else ''
    if obs.sent == 0 and not (obs.result == 'raise' and obs.exc[0] == 'CallError' and 'imed out' not in obs.exc[1]):
        # nothing was asked, so nothing can be answered: whatever the call then reports is not "no reply in time"
        ok, shape = False, 'request_never_sent' + errs
        text = 'the call never put its request on the wire (the scripted replies are never triggered)'
    elif v.kind == REF.TIMEOUT:
        if obs.result == 'raise' and obs.exc[0] == 'CallError':
            if obs.elapsed is not None and obs.elapsed > v.give_up_by + EPS:
                ok, shape = False, 'late_timeout'
                text = 'the timeout was reported %.2f s after the request, later than the configured timeout allows' \
                    % obs.elapsed
        elif obs.result == 'raise':
            ok, shape = False, 'wrong_exception:%s' % obs.exc[0]
            text = 'no own reply arrived in time but the call raised %s instead of CallError' % obs.exc[0]
        elif obs.result == 'return':
            if obs.value in own_payloads:
                ok, shape = False, 'late_own_returned'
                text = ('the socket was silent for longer than the timeout (%.1f s) yet no timeout was reported; the '
                        'call went on waiting and returned a reply that came later' % TIMEOUT_S)
            else:
                ok, shape = False, 'returned_non_own'
                text = 'no own reply arrived in time, no timeout was reported, something else was returned'
        else:
            ok, shape = False, 'never_returns'
            text = 'no own reply arrives and the call neither returns nor reports a timeout, ever'
    elif v.kind == REF.RETURN:
        if obs.result == 'raise' and obs.exc[0] == 'CallError':
            ok, shape = False, 'premature_timeout'
            text = 'the own reply was readable %.2f s after the request, inside the timeout, but the call raised' \
                % obs.timeline[v.index][0]
        elif obs.result == 'raise':
            ok, shape = False, 'wrong_exception:%s' % obs.exc[0]
            text = 'the own reply was readable in time but the call raised %s' % obs.exc[0]
    else:
        if obs.result == 'raise' and obs.exc[0] != 'CallError':
            ok, shape = False, 'wrong_exception:%s' % obs.exc[0]
            text = 'the call raised %s' % obs.exc[0]
    sh_t, tx_t = shape, text
    out.append(('C06.timeout_reported', ok, sh_t, lambda: detail(sh_t, tx_t), v.kind == REF.TIMEOUT or
                (v.kind == REF.RETURN and obs.timeline[v.index][0] > 0)))

    # ---- C06.no_hang
    ok = obs.result != 'hang'
    shape = 'ok'
    if not ok:
        if obs.sent == 0:
            shape = 'request_never_sent' + errs
        elif v.kind == REF.TIMEOUT:
            shape = 'waits_forever_without_own_reply'
        elif any(m.call == obs.k and m.kind in 'OD' for m in obs.consumed):
            # the own reply was taken off the socket and the call still did not return it
            shape = 'own_reply_dropped' + errs
        else:
            shape = 'own_reply_never_read'
    sh_h = shape
    out.append(('C06.no_hang', ok, sh_h, lambda: detail(sh_h, obs.hang), had_to_wait))
    return out


def _run_case(case, patched):
    return (_run_sync if case['client'] == 'sync' else _run_async)(case, patched)


def _evaluate(case, patched):
    """-> (observations, [(clause, ok, shape, detail_callable, nontrivial, call index)])"""
    obs = _run_case(case, patched)
    judged = []
    prev_hung = False
    for o in obs:
        for clause, ok, shape, det, nt in _judge(case, o, prev_hung):
            judged.append((clause, ok, shape, det, nt, o.k))
        prev_hung = o.result == 'hang'
    return obs, judged


def _outcome(case, obs):
    return '%s|%s' % (case['client'], '|'.join(
        '%s:%s:%s:%d' % (o.verdict.kind, o.result, (o.exc or ('',))[0], len(o.consumed)) for o in obs))


def run_client_shard(shard, tier):
    r = EnumResult()
    info = collections.Counter()
    where = WHERE[shard['client']]
    seen = set()
    with _Patched() as patched:
        for case in _cases_of(shard, tier):
            r.cases += 1
            obs, judged = _evaluate(case, patched)
            for clause, ok, shape, det, nt, k in judged:
                if k == 0:
                    nt = False                  # the priming call
                prev = 'h' if (k > 0 and obs[k - 1].result == 'hang') else '-'
                fp = '%s/%s/%s/call%d/prev%s' % (shard['client'], shape, obs[k].verdict.kind, k, prev)
                if not ok and (clause, fp) in seen:
                    r.ev(clause, nt)            # one witness per fingerprint and shard is kept (the framework
                    continue                    # keeps at most 300 violations of a shard)
                if not ok:
                    seen.add((clause, fp))
                r.check(clause, ok, det, where, case, fp=fp, nontrivial=nt)
            interesting = False
            for o in obs[1:]:
                info['%s_calls_verdict_%s' % (shard['client'], o.verdict.kind)] += 1
                if o.verdict.kind == REF.EITHER:
                    info['%s_either_%s' % (shard['client'], 'returned' if o.result == 'return' else
                                           'raised' if o.result == 'raise' else 'hung')] += 1
                if o.verdict.discarded > 0 or o.verdict.kind != REF.RETURN:
                    interesting = True
                if any(m.call != o.k for _t, m in o.timeline):
                    info['%s_calls_with_leftovers_of_an_earlier_call' % shard['client']] += 1
            if interesting:
                r.nontrivial_count += 1
            r.outcomes.add(_outcome(case, obs))
            if len(r.samples) < 2 and interesting and case['s1'] and case['s2']:
                r.samples.append({'case': case, 'calls': [
                    {'call': o.k, 'readable': _fmt_timeline(o), 'reference': repr(o.verdict),
                     'observed': o.result, 'consumed': len(o.consumed)} for o in obs]})
    r.info = dict(info)
    return r


def replay_client_case(case):
    with _Patched() as patched:
        obs, judged = _evaluate(case, patched)
    out = []
    for clause, ok, shape, det, nt, k in judged:
        if not ok:
            out.append((clause, det(), WHERE[case['client']]))
    return out

"""C13, histories half: worker ids are positive, start at 1 and are unique among the live workers of a watcher
through any history of respawns (state-graph search, same machinery as C01)."""
from props.common import pattern, G
from props.hist import run_history, live
from vt.events import Req
from vt.explorer import Result
from vt.runner import Scenario
from vt.simkernel import PID_BASE
from vt.world import World, WSpec

GRAPH = {'quick': 2, 'thorough': 3}
HIST_RULE = ('histories: breadth-first search over canonical quiescent daemon states of a watcher whose command line carries '
             '$(circus.wid); bursts of <= (1 request + 1 death) from {incr, decr, set numprocesses, restart, reload x3, kill} and '
             'worker deaths at every loop-iteration boundary / kernel call; the wid each live worker was actually executed with '
             '(captured argv) must be positive, unique among the live workers, and 1 for the first worker')


def scenarios(tier):
    out = [Scenario('wid', n0=1, pat='obedient', tier=tier), Scenario('wid', n0=2, pat='first-stubborn', tier=tier)]
    # two overlapping requests (the kill command does not take the exclusive slot) on workers that outlive the stop signal
    out.append(Scenario('wid', n0=1, pat='stubborn', tier=tier, req2=True))
    # the environment changes at run time (set env): every later worker is executed with the value in force when it was
    # spawned, in its argv ($(circus.env.mode)) as in its environment
    out.append(Scenario('wid', n0=1, pat='obedient', tier=tier, envset=True))
    if tier != 'quick':
        out += [Scenario('wid', n0=2, pat='slow', tier=tier), Scenario('wid', n0=3, pat='obedient', tier=tier),
                Scenario('wid', n0=2, pat='slow', tier=tier, req2=True)]
    return out


def plan(tier, gen):
    """(request budget, death budget, deviation bound) of a burst in generation `gen`."""
    if tier == 'quick':
        return {1: (1, 1, 2)}.get(gen, (1, 0, 1))
    return {1: (1, 1, 2), 2: (1, 1, 1)}.get(gen, (1, 0, 1))


def bound(tier, scn, gen=1):
    if scn.p.get('req2'):
        return 2 if gen == 1 else 1
    return plan(tier, gen)[2]


def alphabet(world):
    w = world.watcher('a')
    if w is None:
        return []
    if getattr(world, 'envset', False):
        cur = (w.env or {}).get('mode')
        nxt = {'blue': 'green', 'green': 'red'}.get(cur, 'blue')
        return [Req('set', label='set(env.mode=%s)' % nxt, name='a', options={'env': {'mode': nxt}}),
                Req('incr', name='a'), Req('restart', name='a'), Req('reload', name='a'), Req('kill', name='a')]
    evs = [Req('decr', name='a'), Req('restart', name='a'), Req('reload', name='a'),
           Req('reload', label='reload(sequential)', name='a', sequential=True),
           Req('reload', label='reload(terminate)', name='a', graceful=False), Req('kill', name='a')]
    if w.numprocesses < 3:
        evs.append(Req('incr', name='a'))
    for k in (1, 3):
        if k != w.numprocesses:
            evs.append(Req('set', label='set(np=%d)' % k, name='a', options={'numprocesses': k}))
    return evs


def run(scn, ch):
    res = Result()
    tier = scn.tier

    def make_world(ch):
        if scn.p.get('envset'):
            w = World(ch, [WSpec('a', numprocesses=scn.n0, cmd='worker --mode $(circus.env.mode) --wid $(circus.wid)',
                                 env={'mode': 'blue'}, graceful_timeout=G, behaviours=pattern(scn.pat))])
            w.envset = True
            return w
        return World(ch, [WSpec('a', numprocesses=scn.n0, cmd='worker --wid $(circus.wid)', graceful_timeout=G,
                                behaviours=pattern(scn.pat))])

    def budgets(g):
        if scn.p.get('req2'):
            return {'req': 2 if g == 1 else 1, 'die': 0}
        r, d, _ = plan(tier, g)
        return {'req': r, 'die': d}

    def on_quiescent(world, res, gen, win):
        ev_lab = [e.label for _, e in win.applied]
        first = world.kernel.spawn_log[0]
        res.check('C13.first_is_1', first.argv[-1] == '1', lambda: 'first worker ran with wid %r' % first.argv[-1],
                  where='watcher._nextwid')
        wids = []
        for p in live(world, 'a'):
            try:
                wids.append(int(p.argv[-1]))
            except ValueError:
                wids.append(p.argv[-1])
        res.check('C13.wid_positive', all(isinstance(x, int) and x >= 1 for x in wids),
                  lambda: 'live workers run with wids %s (after %s)' % (wids, ev_lab), where='watcher._nextwid')
        res.check('C13.wid_unique', len(set(wids)) == len(wids),
                  lambda: 'two live workers share a wid: %s (after %s)' % (sorted(wids), ev_lab), where='watcher._nextwid',
                  nontrivial=len(wids) > 1)
        # ... and at every instant of the history, not only now: no two workers of the watcher whose lifetimes overlap
        # were executed with the same wid
        procs = [p for p in world.kernel.spawn_log if (p.watcher or '').lower() == 'a']
        clash = [(p.pid - PID_BASE, q.pid - PID_BASE, p.argv[-1]) for i, p in enumerate(procs) for q in procs[i + 1:]
                 if p.argv[-1] == q.argv[-1] and (p.death_time is None or p.death_time > q.spawn_time + 1e-9)]
        res.check('C13.wid_unique', not clash,
                  lambda: 'workers alive at the same time were executed with the same wid (pid, pid, wid): %s (after %s)'
                  % (clash, ev_lab), where='watcher._nextwid/while-both-alive', nontrivial=len(procs) > 1)
        if scn.p.get('envset'):
            for p in world.kernel.spawn_log:
                if (p.watcher or '') != 'a':
                    continue
                argv = [str(x) for x in (p.argv if isinstance(p.argv, list) else [p.argv])]
                mode_arg = argv[argv.index('--mode') + 1] if '--mode' in argv and argv.index('--mode') + 1 < len(argv) else None
                mode_env = (p.env or {}).get('mode')
                res.check('C13.argv_follows_env', mode_arg == mode_env,
                          lambda: 'worker %d was executed with --mode %r in its argv but mode=%r in its environment (after %s)'
                          % (p.pid - PID_BASE, mode_arg, mode_env, ev_lab), where='watcher.spawn_process/cmd-template',
                          nontrivial=mode_env != 'blue')
        # the wid the daemon reports for a process is the one it was executed with
        st = world.ask('stats', name='a')
        if st and st.get('status') == 'ok':
            for pid, info in st.get('info', {}).items():
                if isinstance(info, dict) and 'wid' in info:
                    p = world.kernel.procs.get(int(pid))
                    res.check('C13.wid_reported', p is not None and str(info['wid']) == p.argv[-1],
                              lambda: 'stats reports wid %r for pid %s executed with %r' % (info['wid'], pid, p.argv[-1] if p else None),
                              where='process.format_args')

    return run_history(scn, ch, make_world, alphabet, budgets, on_quiescent, res=res, settle_checks=2)

"""C12 — reloadconfig converges to the file and disturbs only what changed."""
import copy
import itertools
import json
import os

from props.common import *      # noqa: F401,F403
from props.common import write_ini, Scratch
from vt.clock import CLOCK
from vt.explorer import Chooser, digest
from vt.main import EnumResult
from vt.simkernel import PID_BASE, RUNNING
from vt.world import World, WSpec, Abort

ID = 'C12'
KINDS = ['enum']
USES_KERNEL = True
LEVEL = 'model_checking'
TECHNIQUE = ('exhaustive enumeration of all configuration-edit sequences up to a depth, each replayed (edit, reloadconfig, '
             'run to quiescence) on a real daemon and compared after every step with a fresh daemon started on the same file '
             '(differential oracle) and with the previous step (pids kept / delta only)')
RULE = ('configuration = three watcher slots (a, b, c) each absent or present with numprocesses, cmd, graceful_timeout and an '
        'optional [env:NAME] section, plus an optional global [env] section; edit operators: add/remove a slot, numprocesses '
        '+1/-1, change cmd, change another option, toggle env:NAME, toggle [env] (toggles make "revert to an earlier value" part '
        'of the alphabet), and "no edit"; ALL edit sequences of length <= D, reloadconfig after every edit; plus compound edits '
        '(two options of one section in one edit) and failed reloads (an edit that makes a section unloadable, 0-1 further '
        'edits, then the edit taken back: judged against a fresh start once the file loads again); non-trivial = the last edit '
        'changes the file')
ASSUMPTIONS = ['the [circus] and socket sections are held fixed (changing them is documented to restart everything)',
               'workers obey the stop signal at once (termination behaviour is C02/C03)']

SLOTS = ['a', 'Bee', 'c']       # one name with an upper-case letter: the watcher directory ignores case, files do not
INITIAL = {'a': {'np': 1, 'cmd': 0, 'gt': 0, 'envn': 0, 'st': 1}, 'Bee': {'np': 2, 'cmd': 0, 'gt': 0, 'envn': 0, 'st': 0},
           'c': None, 'env': 0}


def boom_hook(watcher, arbiter, hook_name, **kw):
    raise RuntimeError('hook backend is down')


HOOK_EDITS = [('hk', 'a'), ('hkstrict', 'a'), ('hk', 'Bee'), ('hkstrict', 'Bee'), ('cmd', 'a'), ('np+', 'a'), ('noop', None),
              ('toggle', 'a')]


def edits(compound=False):
    out = [('noop', None)]
    for s in SLOTS:
        out += [('toggle', s), ('np+', s), ('np-', s), ('cmd', s), ('gt', s), ('envn', s), ('st', s), ('noauto', s), ('wd', s)]
    out.append(('env', None))
    if compound:
        # two options of one section changed by the same edit of the file (one reloadconfig for both)
        for s in SLOTS:
            for a in ('np+', 'np-'):
                for b in ('cmd', 'gt', 'envn'):
                    out.append((a + '&' + b, s))
            out.append(('cmd&gt', s))
    return out


def apply_edit(cfg, ed):
    """Returns (new cfg, set of slots whose effective settings change, kind) or None if the edit does not apply."""
    op, s = ed
    if op == 'multi':
        # several sections edited in the same version of the file (one reloadconfig for all of them)
        c, touched, kinds = cfg, set(), []
        for sub in s:
            r_ = apply_edit(c, tuple(sub))
            if r_ is None:
                return None
            c, t_, k_ = r_
            touched |= t_
            kinds.append(k_)
        return c, touched, 'bad' if 'bad' in kinds else ('unbad' if 'unbad' in kinds else 'multi')
    if '&' in op:
        a, b = op.split('&')
        r1 = apply_edit(cfg, (a, s))
        if r1 is None:
            return None
        r2 = apply_edit(r1[0], (b, s))
        if r2 is None:
            return None
        return r2[0], r1[1] | r2[1], 'np&other' if a.startswith('np') else 'multi'
    c = copy.deepcopy(cfg)
    present = [x for x in SLOTS if cfg[x] is not None]
    if op == 'noop':
        return c, set(), 'noop'
    if op == 'env':
        c['env'] = 1 - c['env']
        return c, set(present), 'env'
    if op == 'fix':
        # the cause of a failed reload is repaired WITHOUT touching the file: the missing directory is created
        if c.get('dir') or not any(c[x] is not None and c[x].get('bad') == 1 for x in SLOTS):
            return None
        c['dir'] = 1
        return c, set(x for x in SLOTS if c[x] is not None and c[x].get('bad') == 1), 'fix'
    if op == 'toggle':
        if c[s] is None:
            c[s] = {'np': 1, 'cmd': 0, 'gt': 0, 'envn': 0, 'st': 0}
            return c, {s}, 'add'
        c[s] = None
        return c, {s}, 'remove'
    if c[s] is None:
        return None
    if op == 'np+':
        if c[s]['np'] >= 3:
            return None
        c[s]['np'] += 1
        return c, {s}, 'np'
    if op == 'np-':
        if c[s]['np'] <= 1:
            return None
        c[s]['np'] -= 1
        return c, {s}, 'np'
    if op in ('bad1', 'bad2'):
        # an edit that makes the section unloadable (1: a FileStream in a missing directory, 2: a hook that cannot be
        # imported); applied again it takes the edit back
        c[s]['bad'] = 0 if c[s].get('bad') else int(op[3])
        return c, {s}, 'bad' if c[s]['bad'] else 'unbad'
    if op == 'hkstrict' and not c[s].get('hk'):
        return None                     # the flag of a hook that is not configured: no such line to edit
    c[s][op] = 1 - c[s].get(op, 0)
    return c, {s}, op


def isbad(cfg):
    return any(cfg[s] is not None and (cfg[s].get('bad') == 2 or (cfg[s].get('bad') == 1 and not cfg.get('dir')))
               for s in SLOTS)


def render(path, cfg):
    ws, envs = [], []
    if cfg.get('dir'):
        os.makedirs(os.path.join(os.path.dirname(path), 'missing-dir'), exist_ok=True)
    for s in SLOTS:
        w = cfg[s]
        if w is None:
            continue
        opts = {'cmd': 'sleep %d' % (60 + w['cmd']), 'numprocesses': w['np'], 'graceful_timeout': 0.1 + 0.1 * w['gt']}
        if w.get('st'):
            # a stream given by class name (the worker's stdout is captured into a file next to the ini file)
            opts['stdout_stream.class'] = 'FileStream'
            opts['stdout_stream.filename'] = os.path.join(os.path.dirname(path), s + '.log')
        if w.get('noauto'):
            opts['autostart'] = 'False'
        if w.get('wd'):
            opts['working_dir'] = '/tmp'        # the line is present or absent: an option whose default is None
        if w.get('bad') == 1:
            opts['stderr_stream.class'] = 'FileStream'
            opts['stderr_stream.filename'] = os.path.join(os.path.dirname(path), 'missing-dir', s + '.err')
        elif w.get('bad') == 2:
            opts['hooks.before_start'] = 'no_such_module_vt.hook'
        elif w.get('hk'):
            # a before_start hook that raises; its failure is ignored (second field true) or calls the start off
            opts['hooks.before_start'] = 'props.c12.boom_hook, %s' % ('False' if w.get('hkstrict') else 'True')
        ws.append((s, opts))
        if w['envn']:
            envs.append((s, {'SLOT': 'x-' + s}))
    write_ini(path, ws, env={'GLOBAL': 'g'} if cfg['env'] else None, envs=envs)


def depth(tier):
    return 3 if tier == 'quick' else 4


def bounds(tier):
    return {'depth': depth(tier), 'edit_alphabet': len(edits()), 'slots': SLOTS, 'numprocesses': '1..3', 'initial': INITIAL}


def shards(tier):
    E = edits()
    EC = edits(compound=True)
    out = [('len1',)]
    for i in range(len(E)):
        for j in range(len(E)):
            out.append(('pre', i, j))
    # compound edits: all sequences of length <= 2 (quick) / <= 3 (thorough) over the larger alphabet
    for i in range(len(EC)):
        out.append(('cpre', i))
    # failed reloads: an edit that cannot be loaded, then (after 0..1 further edits) taken back
    for v in ('bad1', 'bad2'):
        for s_ in SLOTS:
            for k in range(0, len(E), 6):
                out.append(('bad', v, s_, k))
    # hooks whose failure is ignored or not, switched back and forth between versions of the file
    for i in range(len(HOOK_EDITS)):
        out.append(('hook', i))
    return out


def sequences(shard, tier):
    E = edits()
    D = depth(tier)
    if shard[0] == 'len1':
        for e in E:
            yield [e]
        for e1 in E:
            for e2 in E:
                yield [e1, e2]
        return
    if shard[0] == 'cpre':
        EC = edits(compound=True)
        first = EC[shard[1]]
        for e2 in EC:
            if '&' in first[0] or '&' in e2[0]:
                yield [first, e2]
                if tier != 'quick':
                    for e3 in EC:
                        yield [first, e2, e3]
        if '&' in first[0]:
            yield [first]
        return
    if shard[0] == 'hook':
        H = HOOK_EDITS
        hk = lambda sq: any(e[0] in ('hk', 'hkstrict') for e in sq)      # noqa: E731
        first = H[shard[1]]
        for e2 in H:
            if hk([first, e2]):
                yield [first, e2]
            for e3 in H:
                if hk([first, e2, e3]):
                    yield [first, e2, e3]
                    if tier != 'quick':
                        for e4 in H:
                            yield [first, e2, e3, e4]
        return
    if shard[0] == 'bad':
        _, v, s_, k = shard
        mids = [None, ('noop', None), ('np+', s_), ('cmd', s_), ('env', None)] if tier == 'quick' else [None] + E
        firsts = ([None] if k == 0 else []) + E[k:k + 6]
        for e1 in firsts:
            for mid in mids:
                seq = ([e1] if e1 else []) + [(v, s_)] + ([mid] if mid else []) + [(v, s_)]
                yield seq
                if v == 'bad1':
                    yield seq[:-1] + [('fix', None)]
                if tier != 'quick' and mid is None:
                    for e3 in E:
                        yield seq + [e3]
        if k == 0:
            # the version that cannot be loaded ALSO resizes another watcher (that part is applied before the reload
            # fails); then the whole edit is taken back
            for t_ in SLOTS:
                if t_ != s_:
                    for up, down in (('np+', 'np-'), ('np-', 'np+')):
                        yield [('multi', ((v, s_), (up, t_))), ('multi', ((v, s_), (down, t_)))]
                        yield [('toggle', 'c'), ('multi', ((v, s_), (up, t_))), ('multi', ((v, s_), (down, t_)))]
        return
    _, i, j = shard
    for rest in itertools.product(E, repeat=D - 2):
        yield [E[i], E[j]] + list(rest)
    if D == 4:
        for e in E:
            yield [E[i], E[j], e]


_FRESH = {}


def observe(w, scratchdir=None):
    out = {}
    rep = w.ask('list')
    names = sorted(rep.get('watchers', [])) if rep and rep.get('status') == 'ok' else repr(rep)
    out['watchers'] = names
    if isinstance(names, list):
        for n in names:
            o = w.ask('options', name=n)
            st = w.ask('status', name=n)
            lp = w.ask('list', name=n)
            out[n] = {'options': o.get('options') if o else None, 'status': st.get('status') if st else None,
                      'nprocs': len(lp.get('pids', [])) if lp and lp.get('status') == 'ok' else None}
    if scratchdir:
        out = json.loads(json.dumps(out, default=repr).replace(scratchdir, '<SCRATCH>'))
    return out


def fresh(cfg):
    key = json.dumps(cfg, sort_keys=True)
    if key in _FRESH:
        return _FRESH[key]
    scratch = Scratch()
    ini = scratch.path('c.ini')
    render(ini, cfg)
    w = World(Chooser(), [], config_file=ini)
    try:
        w.boot()
        w.run(until=lambda x: x.boot_future.done() and x.slot() is None, horizon=8)
        w.settle(1)
        obs = observe(w, scratch.dir)
    finally:
        w.close()
        scratch.close()
    _FRESH[key] = obs
    return obs


def pids_of(w, name):
    wt = w.watcher(name)
    return sorted(wt.processes) if wt is not None else None


def run_seq(r, seq, judge_all=False):
    case = {'seq': [list(e) for e in seq]}
    cfg = copy.deepcopy(INITIAL)
    scratch = Scratch()
    ini = scratch.path('c.ini')
    render(ini, cfg)
    w = World(Chooser(), [], config_file=ini)
    try:
        w.boot()
        w.run(until=lambda x: x.boot_future.done() and x.slot() is None, horizon=8)
        w.settle(1)
        kinds = []
        for step, ed in enumerate(seq):
            ap = apply_edit(cfg, ed)
            if ap is None:
                return False            # inapplicable edit: the sequence is not in the language
            new, touched, kind = ap
            kinds.append(kind)
            before = {s: pids_of(w, s) for s in SLOTS}
            nsp, nsg, nev = len(w.kernel.spawn_log), len(w.kernel.signal_log), len(w.ctx.events)
            render(ini, new)
            rq = w.request('reloadconfig')
            w.run(until=lambda x: x.slot() is None and not x.stopping_processes() and not x.loop.has_ready(), horizon=6)
            w.settle(1)
            last = step == len(seq) - 1
            if isbad(new) or isbad(cfg):
                # the file cannot be loaded (the reload is expected to fail), or the previous reload failed: only the
                # state after the file is loadable again is judged, against a fresh start
                if not isbad(new) and (last or judge_all):
                    desc = lambda: 'after edits %s (a failed reload, then the edit taken back)' % json.dumps(seq)   # noqa: E731
                    r.check('C12.accepted', rq.ok(), lambda: desc() + ': reloadconfig answered %r' % rq.reply(),
                            'arbiter.reload_from_config/after-failed-reload', case, fp='refused-unbad')
                    obs, ref = observe(w, scratch.dir), fresh(new)
                    diff = _diff(obs, ref) if obs != ref else None
                    r.check('C12.same_as_fresh', obs == ref,
                            lambda: desc() + ': daemon differs from a fresh start on the same file: %s' % diff,
                            'arbiter.reload_from_config/after-failed-reload', case,
                            fp='fresh-afterbad-' + (_diffkind(diff) if diff else ''))
                    r.outcomes.add(digest(['>'.join(kinds), obs == ref]))
                    r.nontrivial_count += 1
                elif isbad(new) and kind == 'bad' and not isbad(cfg):
                    after = {s: pids_of(w, s) for s in SLOTS}
                    for s in SLOTS:
                        if s in touched or new[s] is None:
                            continue
                        r.check('C12.untouched_keep_pids', before[s] == after[s],
                                lambda: 'failed reload (%s): watcher %s was not edited but its pids changed %s -> %s'
                                % (json.dumps(seq), s, before[s], after[s]),
                                'arbiter.reload_from_config', case, fp='untouched-bad')
                cfg = new
                continue
            if last or judge_all:
                shape = '>'.join(kinds)
                desc = lambda: 'after edits %s (last: %s %s)' % (json.dumps(seq), kind, ed[1])    # noqa: E731
                r.check('C12.accepted', rq.ok(), lambda: desc() + ': reloadconfig answered %r' % rq.reply(),
                        'arbiter.reload_from_config', case, fp='refused-' + kind)
                obs, ref = observe(w, scratch.dir), fresh(new)
                if obs != ref:
                    diff = _diff(obs, ref)
                    site = 'arbiter.reload_from_config'
                    if 'np' in kinds[:-1] or kind == 'np':
                        site += '/after-numprocesses-only-change'
                    r.check('C12.same_as_fresh', False,
                            lambda: desc() + ': daemon differs from a fresh start on the same file: %s' % diff, site, case,
                            fp='fresh-' + _diffkind(diff) + ('-after-np' if 'after-num' in site else ''))
                else:
                    r.ev('C12.same_as_fresh', kind != 'noop')
                after = {s: pids_of(w, s) for s in SLOTS}
                new_sig = w.kernel.signal_log[nsg:]
                for s in SLOTS:
                    if s in touched or new[s] is None:
                        continue
                    r.check('C12.untouched_keep_pids', before[s] == after[s],
                            lambda: desc() + ': watcher %s was not edited but its pids changed %s -> %s' % (s, before[s], after[s]),
                            'arbiter.reload_from_config', case, fp='untouched-' + kind, nontrivial=kind != 'noop')
                if kind == 'np':
                    s = ed[1]
                    b, a = set(before[s] or []), set(after[s] or [])
                    d = new[s]['np'] - cfg[s]['np']
                    ok = (b <= a and len(a - b) == d) if d > 0 else (a <= b and len(b - a) == -d)
                    if new[s].get('noauto') or (new[s].get('hk') and new[s].get('hkstrict')):
                        ok = not a and not b          # a watcher the file keeps stopped (autostart off) has no worker to add
                    others = [x for x in new_sig if x[1] not in (b - a)]
                    r.check('C12.np_only_delta', ok and not others,
                            lambda: desc() + ': numprocesses %d -> %d but pids %s -> %s, signals to others %s'
                            % (cfg[s]['np'], new[s]['np'], sorted(b), sorted(a), others), 'arbiter.reload_from_config',
                            case, fp='npdelta' + ('-after-np' if 'np' in kinds[:-1] else ''))
                if kind == 'noop':
                    r.check('C12.unchanged_file_noop',
                            len(w.kernel.spawn_log) == nsp and len(w.kernel.signal_log) == nsg and len(w.ctx.events) == nev,
                            lambda: desc() + ': reloading an unchanged file spawned %d, signalled %d, published %d'
                            % (len(w.kernel.spawn_log) - nsp, len(w.kernel.signal_log) - nsg, len(w.ctx.events) - nev),
                            'arbiter.reload_from_config', case,
                            fp='noop' + ('-after-np' if 'np' in kinds[:-1] else ''))
                r.outcomes.add(digest([shape, obs == ref]))
                if kind != 'noop':
                    r.nontrivial_count += 1
            cfg = new
        return True
    except Abort as e:
        r.fail('C12.no_exception', 'blocked: %s in %s' % (e, json.dumps(seq)), w.blocked_site(), case, fp='blocked')
        return True
    finally:
        w.close()
        scratch.close()


def _diff(obs, ref):
    out = {}
    for k in sorted(set(obs) | set(ref)):
        if obs.get(k) != ref.get(k):
            a, b = obs.get(k), ref.get(k)
            if isinstance(a, dict) and isinstance(b, dict):
                sub = {}
                for kk in set(a) | set(b):
                    if a.get(kk) != b.get(kk):
                        if isinstance(a.get(kk), dict) and isinstance(b.get(kk), dict):
                            sub[kk] = {o: (a[kk].get(o), b[kk].get(o)) for o in set(a[kk]) | set(b[kk])
                                       if a[kk].get(o) != b[kk].get(o)}
                        else:
                            sub[kk] = (a.get(kk), b.get(kk))
                out[k] = sub
            else:
                out[k] = (a, b)
    return out


def _diffkind(diff):
    ks = []
    for k, v in diff.items():
        if k == 'watchers':
            ks.append('set')
        elif isinstance(v, dict):
            for kk, vv in v.items():
                ks.append(kk if not isinstance(vv, dict) else kk + ':' + ','.join(sorted(vv)))
    return '|'.join(sorted(set(ks)))[:80]


def run_shard(shard, tier):
    r = EnumResult()
    for seq in sequences(shard, tier):
        if run_seq(r, seq):
            r.cases += 1
            if len(r.samples) < 2:
                r.samples.append({'seq': [list(e) for e in seq]})
    return r


def replay_case(case):
    r = EnumResult()
    run_seq(r, [tuple(e) for e in case['seq']])
    return [(v['clause'], v['detail'], v['where']) for v in r.violations]

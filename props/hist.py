"""Generic history runner for the quiescent-state graph properties (C01, C04, C09, C13-wid, ...).

One execution = boot; then `gens` generations.  A generation opens a window in which the
property's alphabet (requests, worker deaths at L-points and K-points) is offered, runs through at
least one periodic check and on until the daemon is quiescent again, closes the window, settles
(N periodic checks with no event), calls the property's quiescent oracle and records the canonical
state digest.  The runner's graph search (vt/runner.py) decides which generations are explored.
"""
from props.common import *      # noqa: F401,F403
from props.common import Window, finish, pattern, G
from vt.canon import canon
from vt.clock import CLOCK
from vt.events import Req, deaths, EXIT1, KILLED9
from vt.explorer import Result
from vt.world import World, WSpec, Abort


class Budgeted(object):
    """Window with per-generation budgets per event class ('req', 'die')."""

    def __init__(self, world, alphabet, budgets, statuses=(EXIT1, KILLED9), kpoints=True, k_calls=None):
        self.world = world
        self.alphabet = alphabet          # fn(world) -> [Event]   (requests)
        self.budgets = dict(budgets)      # {'req': n, 'die': n}
        self.used = {'req': 0, 'die': 0}
        self.open = False
        self.statuses = statuses
        self.kpoints = kpoints
        self.k_calls = k_calls
        self.applied = []                 # events applied in the current window
        world.kernel.kpoint_hook = self._kpoint

    def reset(self):
        self.used = {'req': 0, 'die': 0}
        self.applied = []

    def _deaths(self):
        if self.used['die'] >= self.budgets.get('die', 0):
            return []
        evs = deaths(self.world, self.statuses)
        only = getattr(self.world, 'deaths_only', None)
        if only:
            evs = [e for e in evs if any(('(%s#' % w) in e.label for w in only)]
        return evs

    def _kpoint(self, name, pid):
        if not (self.open and self.kpoints):
            return
        if self.k_calls is not None and name not in self.k_calls:
            return
        evs = self._deaths()
        if not evs:
            return
        w = self.world
        tag = '%s.%s' % (name, (pid - PID_BASE) if pid and pid > 0 else pid)
        c = w.ex.choose('K.' + tag, [e.label for e in evs], first_is_default=False)
        if c > 0:
            ev = evs[c - 1]
            self.used['die'] += 1
            self.applied.append(('K.' + tag, ev))
            w.trace.append((CLOCK.now, 'inject@K.' + tag, ev.label))
            ev.apply(w)

    def menu(self, world):
        if not self.open:
            return []
        evs = []
        if self.used['req'] < self.budgets.get('req', 0) and self.alphabet is not None:
            evs += [_Counted(e, self, 'req') for e in self.alphabet(world)]
        evs += [_Counted(e, self, 'die') for e in self._deaths()]
        return evs


class _Counted(object):
    def __init__(self, ev, win, kind):
        self.ev, self.win, self.kind = ev, win, kind
        self.label = ev.label

    def apply(self, world):
        self.win.used[self.kind] += 1
        self.win.applied.append(('L', self.ev))
        return self.ev.apply(world)


def run_history(scn, ch, make_world, alphabet, budgets, on_quiescent, res=None, settle_checks=3,
                statuses=(EXIT1, KILLED9), on_window_end=None, kpoints=True, horizon=12.0,
                abort_clause=None, k_calls=None):
    """make_world(ch) -> World (not booted).  on_quiescent(world, res, gen, win) evaluates oracles."""
    res = res or Result()
    world = make_world(ch)
    win = Budgeted(world, alphabet, {} if callable(budgets) else budgets, statuses, kpoints, k_calls)
    gens = ch.ctx.get('gens', scn.p.get('G', 1))
    try:
        world.boot()
        world.run(until=lambda w: w.boot_future.done(), horizon=10)
        world.settle(1)
        for g in range(1, gens + 1):
            win.reset()
            if callable(budgets):
                win.budgets = dict(budgets(g))
            win.open = True
            t_min = CLOCK.now + world.check_delay
            why = world.run(until=lambda w: CLOCK.now >= t_min - 1e-9 and w.quiescent(), horizon=horizon,
                            menu=win.menu)
            win.open = False
            world.window_end = CLOCK.now
            if on_window_end is not None:
                on_window_end(world, res, g, win, why)
            world.settle(settle_checks)
            if not world.quiescent():
                # an operation begun by the last check is still in flight: the oracles are about quiescent points
                world.run(until=lambda w: w.quiescent(), horizon=horizon)
            world.quiescent_ok = world.quiescent()
            on_quiescent(world, res, g, win)
            d = canon(world)
            res.states.append(d)
            res.final_state = d
        res.outcome = res.final_state
        return finish(world, res)
    except Abort as e:
        if abort_clause is not None:
            res.check(abort_clause, False, 'execution aborted: %s at %s' % (e, CLOCK.blocked_where),
                      where=world.blocked_site())
        res.final_state = None
        return finish(world, res, aborted=str(e))


def live(world, name):
    return [p for p in world.kernel.spawn_log if (p.watcher or '').lower() == name.lower() and p.state == RUNNING]

"""TEMPORARY wrapper to run the client half of C06 on its own (to be deleted)."""
from props.c06_client import (CLIENT_RULE, CLIENT_ASSUMPTIONS, client_bounds, client_shards, run_client_shard,
                              replay_client_case)
ID = 'C06'
KIND = 'enum'
LEVEL = 'exploration'
RULE = CLIENT_RULE
ASSUMPTIONS = CLIENT_ASSUMPTIONS
bounds = client_bounds
shards = client_shards
run_shard = run_client_shard
replay_case = replay_client_case

"""C08 — Shutdown is complete: nothing is left behind after quit or a termination signal."""
import os
import signal
import sys

from props.common import *      # noqa: F401,F403
from props.common import pattern, Window, finish, G, write_ini, Scratch
from vt import fakezmq
from vt.clock import CLOCK
from vt.events import Req, DaemonSignal, EXIT1
from vt.explorer import Result, digest
from vt.runner import Scenario
from vt.simkernel import PID_BASE, RUNNING, ZOMBIE
from vt.world import World, WSpec, Abort, DaemonKilled
import vt.world as VW

ID = 'C08'
KIND = 'explorer'
LEVEL = 'model_checking'
BUDGET = {'quick': 900, 'thorough': 10800}
RULE = ('the real circusd.main() runs in-process (argv patched, loop.start() handed to the explorer, SystemExit captured) on '
        'configurations {1-2 watchers, obedient/stubborn workers, watcher and global warmup, 0-2 managed sockets (real inet + '
        'unix), pid file, an on-demand watcher whose socket-triggered start is in progress}; after <= 2 requests, ONE termination event from {quit request, SIGTERM, SIGINT, SIGQUIT} is '
        'delivered at EVERY loop-iteration boundary from process start (including during the initial start of the watchers and '
        'inside in-flight operations), thorough: plus one worker death anywhere; pid-file matrix content x liveness')
ASSUMPTIONS = ['signal handlers are invoked by calling the registered SysHandler.signal(signum) between loop iterations '
               '(CPython runs signal handlers between bytecodes of the main thread; the handler only schedules a callback)',
               'os.kill(pid, 0) of the pid-file check is answered by a table of foreign processes']

TERMS = [('quit', None), ('SIGTERM', signal.SIGTERM), ('SIGINT', signal.SIGINT), ('SIGQUIT', signal.SIGQUIT)]
PRE = {'none': [], 'restart-all': [('restart', {})], 'restart-all+incr': [('restart', {}), ('incr', {'name': 'a'})], 'incr': [('incr', {'name': 'a'})], 'restart': [('restart', {'name': 'a'})],
       'reload': [('reload', {'name': 'a'})], 'stop': [('stop', {'name': 'a'})], 'kill': [('kill', {'name': 'a'})],
       'stop+incr': [('stop', {'name': 'a'}), ('incr', {'name': 'b'})], 'restart+kill': [('restart', {'name': 'a'}), ('kill', {'name': 'a'})],
       'reload-add-socks-fail': [('@reload-add-socks-fail', {})]}
PIDFILE_CASES = ['absent', 'empty', 'blank', 'garbage', 'zero', 'negative', 'own', 'live-foreign', 'dead', 'trailing-junk',
                 'huge', 'newline-own']


def scenarios(tier):
    out = []
    cfgs = [dict(nw=1, pat='obedient', w=0, gw=0, socks=0), dict(nw=2, pat='stubborn', w=0.0, gw=1, socks=2),
            dict(nw=2, pat='obedient', w=0, gw=0, socks=1)]
    if tier != 'quick':
        cfgs += [dict(nw=1, pat='stubborn', w=0, gw=0, socks=0), dict(nw=2, pat='first-stubborn', w=0, gw=1, socks=2),
                 dict(nw=2, pat='slow', w=0, gw=0, socks=1)]
    pres = ['none', 'restart', 'stop', 'restart-all'] if tier == 'quick' else list(PRE)
    for c in cfgs:
        for pre in pres:
            out.append(Scenario('main', pre=pre, pidfile=True, E=1 if tier == 'quick' else 1, **c))
    # an on-demand watcher on a managed socket: a client connects after the initial start, so the watcher's background
    # start (not an exclusive operation; paced by its warmup delay) is in progress when the termination event arrives
    for pat in ['obedient', 'stubborn']:
        out.append(Scenario('main', pre='none', pidfile=True, E=1, nw=1, pat=pat, w=0, gw=0, socks=1, od=True))
    # a reloadconfig that adds two managed sockets and fails on one of them (its port is taken): whatever it did bind must
    # still be closed and unlinked by the shutdown
    out.append(Scenario('main', pre='reload-add-socks-fail', pidfile=True, E=0, nw=1, pat='obedient', w=0, gw=0, socks=1, nodet=True))
    # a SIGHUP (reload) that is already waiting for the initial start to end when the termination signal arrives
    out.append(Scenario('main', pre='none', pidfile=True, E=1, nw=2, pat='obedient', w=0, gw=1, socks=1, hup=True))
    if tier != 'quick':
        out.append(Scenario('main', pre='none', pidfile=True, E=2, nw=2, pat='stubborn', w=0, gw=0, socks=1))
    # a SECOND termination event while the shutdown started by the first is under way (an operator who signals twice, an
    # init system that sends SIGTERM after `circusctl quit`): what holds for one holds for two
    out.append(Scenario('main', pre='none', pidfile=True, E=2, nw=1, pat='stubborn', w=0, gw=0, socks=2, again=True))
    if tier != 'quick':
        out.append(Scenario('main', pre='restart', pidfile=True, E=2, nw=2, pat='first-stubborn', w=0, gw=0, socks=1, again=True))
    # a daemon with nothing to do for a long while (the periodic check, its only timer, is 30 s away / switched off): a
    # signal that arrives while the loop sits in its selector is acted upon only if its handler wakes the loop up
    for cd in (30, -1):
        out.append(Scenario('main', pre='none', pidfile=True, E=1, nw=1, pat='obedient', w=0, gw=0, socks=1, check_delay=cd))
    for pc in PIDFILE_CASES:
        out.append(Scenario('pidfile', case=pc, nodet=True))
    return out


def bound(tier, scn):
    return scn.p.get('E', 0)


def bounds(tier):
    return {'termination_events': [t[0] for t in TERMS], 'arrival': 'every loop-iteration boundary from process start',
            'pre_histories': list(PRE) if tier != 'quick' else ['none', 'restart', 'stop', 'restart-all'], 'pidfile_cases': PIDFILE_CASES,
            'graceful_timeout': G}


class _ArbiterProxy(object):
    """circus.circusd.Arbiter look-alike that records the arbiter main() creates."""

    def __init__(self, real):
        self._real = real

    def load_from_config(self, path, **kw):
        a = self._real.load_from_config(path, **kw)
        VW.CURRENT.arbiter = a
        VW.CURRENT.arbiters.append(a)
        return a

    def __getattr__(self, k):
        return getattr(self._real, k)


def _install_main_seams():
    import circus.circusd as CD
    import circus.arbiter as CA
    if not isinstance(CD.Arbiter, _ArbiterProxy):
        CD.Arbiter = _ArbiterProxy(CA.Arbiter)
        CD.configure_logger = lambda *a, **k: None


def term_menu(world):
    if world.terminated is not None and not (world.again and world.second is None):
        return []
    evs = []
    for name, sig in TERMS:
        if sig is None:
            if world.arbiter is not None and world.arbiter.ctrl.started and not world.arbiter.ctrl.stream.closed():
                evs.append(T(Req('quit'), name))
        else:
            evs.append(T(DaemonSignal(int(sig)), name))
    return evs


class T(object):
    def __init__(self, ev, name):
        self.ev = ev
        self.label = 'term(%s)' % name

    def apply(self, world):
        slot = world.slot() or ('<restarting>' if world.arbiter._restarting else None)
        if world.terminated is not None:
            world.second = (CLOCK.now, self.label)
            self.ev.apply(world)
            return
        r = self.ev.apply(world)
        if isinstance(self.ev, Req) and r is not None and not r.ok():
            # a quit REQUEST that is refused (conflict) tells its client so: the property is about accepted quit requests
            world.refused_quits = getattr(world, 'refused_quits', 0) + 1
            return
        world.terminated = (CLOCK.now, self.label, slot)


def run(scn, ch):
    res = Result()
    _install_main_seams()
    if scn.name == 'pidfile':
        return _run_pidfile(scn, ch, res)
    scratch = Scratch()
    ini = scratch.path('circus.ini')
    pidf = scratch.path('circusd.pid')
    ws = [('a', dict(cmd='sleep 60', numprocesses=2, graceful_timeout=G))]
    if scn.nw == 2:
        ws.append(('b', dict(cmd='sleep 61', numprocesses=1, graceful_timeout=G)))
    socks = []
    if scn.socks >= 1:
        socks.append(('web', {'host': '127.0.0.1', 'port': 0}))
    if scn.socks >= 2:
        socks.append(('ux', {'path': scratch.path('ux.sock')}))
    od = bool(scn.p.get('od'))
    if od:
        ws.append(('od', dict(cmd='worker --fd $(circus.sockets.web)', numprocesses=2, graceful_timeout=G, on_demand=True,
                              use_sockets=True)))
    base_circus = {'warmup_delay': scn.gw}
    if scn.p.get('check_delay') is not None:
        base_circus['check_delay'] = scn.p['check_delay']
    write_ini(ini, ws, circus=base_circus, sockets=socks)
    world = World(ch, [WSpec('a', behaviours=pattern(scn.pat)), WSpec('b'), WSpec('od', behaviours=pattern(scn.pat))])
    clients = []
    world.arbiters = []
    world.terminated = None
    world.again, world.second = bool(scn.p.get('again')), None
    world.exit_code = 'not-exited'
    world.phase = 0
    win = Window(world, lmenu=term_menu, statuses=(EXIT1,), kpoints=(scn.E > 1 and not world.again))
    if scn.E <= 1 or world.again:
        # only termination events are deviations (no deaths)
        win.menu = lambda w: term_menu(w) if win.open else []
    pre = PRE[scn.pre]
    state = {'entries': 0, 'abort': None, 'deadline_missed': None, 'pre_i': 0}

    def script(loop):
        """Called each time circusd.main() enters loop.start() - once per arbiter incarnation (a `restart` of the whole
        arbiter makes main() build a new one and come back here)."""
        state['entries'] += 1
        try:
            win.open = True
            for w in world.arbiter.watchers:
                if w.name == 'a':
                    w.warmup_delay = float(scn.w)
                if w.name == 'od':
                    w.warmup_delay = 0.25
            stopped = lambda: loop.stop_requested()       # noqa: E731
            if world.terminated is None:
                # the initial start of this incarnation
                if scn.p.get('hup') and not state.get('hup_sent'):
                    world.run(until=lambda w: stopped() or len(w.kernel.spawn_log) >= 1, horizon=2)
                    state['hup_sent'] = True
                    world.signal_daemon(int(signal.SIGHUP))
                world.run(until=lambda w: stopped() or (w.slot() is None and not w.loop.has_ready() and
                                                        len(w.kernel.spawn_log) >= 1 and w.quiescent_main()),
                          horizon=8, menu=win.menu)
                if od and not clients and not stopped() and world.terminated is None:
                    import socket as _socket
                    c = _socket.socket(_socket.AF_INET, _socket.SOCK_STREAM)
                    c.settimeout(0.5)
                    c.connect(world.arbiter.sockets['web'].getsockname())
                    clients.append(c)
                    world.run(until=lambda w: stopped() or w.terminated is not None or
                              len(w.procs_of('od', [RUNNING])) >= 2, horizon=2.5, menu=win.menu)
                if scn.p.get('check_delay') is not None and world.terminated is None and not stopped():
                    # nothing to do for the daemon: 0.7 s later the loop still sits in its selector - an L-point of its own
                    world.run(horizon=0.7)
                    evs = term_menu(world)
                    c = world.ex.choose('L', [e.label for e in evs], first_is_default=False)
                    if c > 0:
                        world.trace.append((CLOCK.now, 'inject', evs[c - 1].label))
                        evs[c - 1].apply(world)
                # the pre-history
                while state['pre_i'] < len(pre) and not stopped() and world.terminated is None:
                    cmd, props = pre[state['pre_i']]
                    state['pre_i'] += 1
                    if world.arbiter.ctrl.stream.closed():
                        break
                    if cmd == '@reload-add-socks-fail':
                        import socket as _socket
                        held = _socket.socket(_socket.AF_INET, _socket.SOCK_STREAM)
                        held.bind(('127.0.0.1', 0))
                        held.listen(1)
                        clients.append(held)
                        extra = [('a_front', {'path': scratch.path('front.sock')}),
                                 ('b_api', {'host': '127.0.0.1', 'port': held.getsockname()[1]}),
                                 ('c_back', {'path': scratch.path('back.sock')})]
                        write_ini(ini, ws, circus={'warmup_delay': scn.gw}, sockets=socks + extra)
                        state['extra_paths'] = [scratch.path('front.sock'), scratch.path('back.sock')]
                        cmd, props = 'reloadconfig', {}
                    world.request(cmd, **props)
                    world.run(until=lambda w: stopped() or w.terminated is not None or
                              (w.slot() is None and not w.stopping_processes()), horizon=4, menu=win.menu)
                if stopped() and world.terminated is None and world.arbiter._restarting:
                    return              # the arbiter restarts itself: main() comes back with a new one
                if not stopped() and world.terminated is None:
                    world.run(until=lambda w: stopped() or w.terminated is not None, horizon=1.2, menu=win.menu)
                if world.terminated is None and not stopped():
                    # default path: an orderly quit at the end
                    win.open = False
                    T(Req('quit'), 'quit-default').apply(world)
            # after the termination event: the daemon must stop its loop within sum(g) + 1 s
            win.open = scn.E > 1
            t_sig = world.terminated[0] if world.terminated else CLOCK.now
            limit = G * 4 + scn.gw * 2 + 1.0 + 1.0 + (G * 2 + 0.5 if od else 0)
            why = world.run(until=lambda w: loop.stop_requested(), horizon=max(0.0, t_sig + limit - CLOCK.now),
                            menu=win.menu if scn.E > 1 else None)
            win.open = False
            if why != 'until':
                state['deadline_missed'] = (CLOCK.now - t_sig, world.slot())
        except Abort as e:
            state['abort'] = str(e)

    world.loop.driver = script
    world.quiescent_main = lambda: (len(world.loop.live_timers()) <= 1 and not world.kernel.timers)
    argv = sys.argv
    sys.argv = ['circusd', ini] + (['--pidfile', pidf] if scn.pidfile else [])
    import circus.circusd as CD
    try:
        try:
            CD.main()
            world.exit_code = 'returned'
        except SystemExit as e:
            world.exit_code = e.code
        except Abort as e:
            state['abort'] = str(e)
        except DaemonKilled as e:
            world.exit_code = 'killed by signal %d (its disposition was the default one)' % e.signum
        except KeyboardInterrupt:
            world.exit_code = 'KeyboardInterrupt'
        except Exception as e:
            world.exit_code = 'exception: %r' % e
        finally:
            sys.argv = argv
        term = world.terminated
        tlab = term[1] if term else None
        if world.second:
            tlab = '%s then %s %.2fs later' % (tlab, world.second[1], world.second[0] - term[0])
        slot_at = term[2] if term else None
        site = 'arbiter.stop'
        if state['deadline_missed'] and slot_at:
            site = ('sighandler.quit/dropped-while-arbiter-restarts' if slot_at in ('<restarting>', 'arbiter_restart')
                    else 'sighandler.quit/dropped-while-exclusive-operation')
        if state['abort']:
            res.check('C08.exits_0', False, 'aborted: %s (terminated by %s)' % (state['abort'], tlab), where=world.blocked_site())
            return finish(world, res, aborted=state['abort'])
        res.check('C08.exits_0', state['deadline_missed'] is None and world.exit_code == 0,
                  lambda: '%s at t=%.3f (exclusive slot then: %r): daemon %s; exit status %r' % (
                      tlab, term[0] if term else -1, slot_at,
                      'still running %.2fs later (slot=%r)' % state['deadline_missed'] if state['deadline_missed'] else 'stopped',
                      world.exit_code), where=site)
        if state['deadline_missed'] is None:
            left = [(p.pid - PID_BASE, p.state) for p in world.kernel.spawn_log if p.state in (RUNNING, ZOMBIE)]
            res.check('C08.no_worker_left', not left, lambda: 'after %s: workers left behind %s' % (tlab, left), where='arbiter.stop')
            open_z = [s.kind for s in world.ctx.sockets if not s.closed]
            res.check('C08.zmq_closed', not open_z, lambda: 'after %s: zmq sockets still open: %s' % (tlab, open_z),
                      where='arbiter.stop_controller_and_close_sockets')
            for a in world.arbiters:
                opn = [n for n, s in a.sockets.items() if s.fileno() != -1]
                res.check('C08.sockets_closed', not opn, lambda: 'after %s: managed sockets still open: %s' % (tlab, opn),
                          where='arbiter.stop_controller_and_close_sockets', nontrivial=scn.socks > 0)
            if scn.socks >= 2:
                res.check('C08.unix_path_removed', not os.path.exists(scratch.path('ux.sock')),
                          'unix socket file still exists after shutdown', where='sockets.CircusSocket.close')
            for pth in state.get('extra_paths', []):
                res.check('C08.unix_path_removed', not os.path.exists(pth),
                          lambda: 'unix socket file %s (bound by a reloadconfig that then failed on another socket) still '
                          'exists after shutdown' % os.path.basename(pth), where='arbiter.reload_from_config/sockets')
            if scn.pidfile:
                res.check('C08.pidfile_removed', not os.path.exists(pidf), 'pid file still exists after shutdown',
                          where='circusd.main')
        res.outcome = digest([tlab, world.exit_code, state['deadline_missed'] is None,
                              [(p.state) for p in world.kernel.spawn_log]])
        return finish(world, res)
    finally:
        for c in clients:
            c.close()
        if not world.closed:
            world.close()
        scratch.close()


def _run_pidfile(scn, ch, res):
    scratch = Scratch()
    ini = scratch.path('circus.ini')
    pidf = scratch.path('circusd.pid')
    write_ini(ini, [('a', dict(cmd='sleep 60', numprocesses=1, graceful_timeout=G))])
    world = World(ch, [WSpec('a')])
    world.arbiters = []
    world.terminated = None
    me = os.getpid()
    case = scn.case
    LIVE, DEAD = 4100001, 4100002
    world.kernel.foreign = {LIVE: True, DEAD: False}
    content = {'absent': None, 'empty': '', 'blank': '  \n', 'garbage': 'not-a-pid\n', 'zero': '0\n', 'negative': '-1\n',
               'own': '%d\n' % me, 'live-foreign': '%d\n' % LIVE, 'dead': '%d\n' % DEAD, 'trailing-junk': '%d xyz\n' % DEAD,
               'huge': '99999999999999999999\n', 'newline-own': '\n%d\n' % me}[case]
    if content is not None:
        with open(pidf, 'w') as f:
            f.write(content)
    state = {'started': False}

    def script(loop):
        state['started'] = True
        world.run(until=lambda w: w.slot() is None and len(w.kernel.spawn_log) >= 1, horizon=5)
        state['content_running'] = open(pidf).read() if os.path.exists(pidf) else None
        world.request('quit')
        world.run(until=lambda w: loop.stop_requested(), horizon=5)
    world.loop.driver = script
    argv = sys.argv
    sys.argv = ['circusd', ini, '--pidfile', pidf]
    import circus.circusd as CD
    import io
    import contextlib
    try:
        code = 'returned'
        try:
            with contextlib.redirect_stdout(io.StringIO()):
                CD.main()
        except SystemExit as e:
            code = e.code
        except Exception as e:
            code = 'exception: %r' % e
        finally:
            sys.argv = argv
        after = open(pidf).read() if os.path.exists(pidf) else None
        if case == 'live-foreign':
            res.check('C08.refuses_live_pidfile', code == 1 and not state['started'] and not world.kernel.spawn_log and
                      after == content,
                      lambda: 'pid file names a live foreign process: exit=%r started=%s spawned=%d file now %r'
                      % (code, state['started'], len(world.kernel.spawn_log), after), where='pidfile.Pidfile.create')
        else:
            res.check('C08.takes_over_stale', code == 0 and state['started'] and
                      (state.get('content_running') or '').strip() == str(me),
                      lambda: 'pid file case %r (content %r): exit=%r started=%s, file while running %r'
                      % (case, content, code, state['started'], state.get('content_running')),
                      where='pidfile.Pidfile.validate/' + case)
            res.check('C08.pidfile_removed', after is None,
                      lambda: 'pid file case %r: file still present after exit: %r' % (case, after), where='pidfile.Pidfile.unlink')
        res.outcome = digest([case, code, after])
        return finish(world, res)
    finally:
        if not world.closed:
            world.close()
        scratch.close()

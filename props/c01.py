"""C01 — Process count converges to the configured target and then stays put."""
from props.common import *      # noqa: F401,F403
from props.common import pattern, G, numprocesses_of
from props.hist import run_history, live
from vt.clock import CLOCK
from vt.events import Req
from vt.explorer import Result
from vt.runner import Scenario
from vt.world import World, WSpec

ID = 'C01'
KIND = 'explorer'
LEVEL = 'model_checking'
LIVE = {'thorough': ['incr-decr-restart', 'exit3-respawn']}
GRAPH = {'quick': 2, 'thorough': 3}
BUDGET = {'quick': 900, 'thorough': 10800}
RULE = ('breadth-first search over canonical quiescent daemon states; from every new state all bursts of '
        '<= (1 request + 1 worker death) placed at every loop-iteration boundary '
        '(requests, deaths) and before every kernel call (deaths) of one check period and of whatever the '
        'burst sets in motion; after each burst 3 periodic checks, then the convergence / generation / fixpoint '
        'oracles; a state is the canonical digest of watchers, options, process table and timers; configurations include a '
        'bystander watcher, a dense (0.3 s) check period, a transient exec fault at the j-th process creation, an after_spawn '
        'hook that rejects the k-th worker, and max_age')
ASSUMPTIONS = ['numprocesses capped at 3 (incr disabled at the cap) so that the state graph is finite']

NP_CAP = 3


def scenarios(tier):
    out = []
    if tier == 'quick':
        cfgs = [(1, False, 0.0, 'obedient'), (2, False, 0.0, 'first-stubborn'), (1, True, 0.0, 'obedient'),
                (2, False, 0.25, 'slow')]
    else:
        cfgs = []
        cfgs = [(1, False, 0.0, 'obedient'), (2, False, 0.0, 'first-stubborn'), (1, True, 0.0, 'obedient'),
                (2, False, 0.25, 'slow'), (2, False, 0.0, 'stubborn'), (1, False, 0.25, 'stubborn'),
                (2, False, 0.25, 'obedient'), (1, True, 0.25, 'stubborn'), (3, False, 0.0, 'obedient')]
    for n0, single, w, pat in cfgs:
        out.append(Scenario('hist', n0=n0, singleton=single, w=w, pat=pat, max_age=0, tier=tier))
    out.append(Scenario('hist', n0=2, singleton=False, w=0.0, pat='obedient', max_age=2, tier=tier))
    # process creation fails once (the retry inside spawn_process must make up for it) at the j-th attempt
    for j in ((4, 5) if tier == 'quick' else (4, 5, 6, 7)):
        out.append(Scenario('hist', n0=2, singleton=False, w=0.0, pat='obedient', max_age=0, tier=tier, fault=j))
    # the watcher's workers are the daemon's only children (no bystander): when all have died waitpid(-1) answers ECHILD
    out.append(Scenario('hist', n0=1, singleton=False, w=0.0, pat='obedient', max_age=0, tier=tier, solo=True))
    # an after_spawn hook that rejects the k-th worker (k-th call overall): replacement spawns of a reload included
    for k in ((3, 4) if tier == 'quick' else (3, 4, 5)):
        out.append(Scenario('hist', n0=2, singleton=False, w=0.0, pat='slow', max_age=0, tier=tier, reject=k))
    # dense periodic checks (0.3 s): a kill's 0.1 s polling loop and the slow workers' deaths straddle check ticks
    out.append(Scenario('hist', n0=2, singleton=False, w=0.0, pat='slow', max_age=0, tier=tier, tick=0.3))
    # both watchers capture their workers' output, and the bystander's worker can die too: a pipe of the one gets the
    # descriptor number a pipe of the other just gave up (workers that ignore the stop signal are killed and closed in
    # one step, before the loop has seen their pipes end)
    out.append(Scenario('hist', n0=2, singleton=False, w=0.0, pat='stubborn', max_age=0, tier=tier, streams=True))
    # workers that are gone only an instant after their SIGKILL
    out.append(Scenario('hist', n0=2, singleton=False, w=0.0, pat='stubborn-lag', max_age=0, tier=tier))
    return out


def plan(tier, gen):
    """(request budget, death budget, deviation bound) of a burst in generation `gen`."""
    if tier == 'quick':
        return {1: (1, 1, 2)}.get(gen, (1, 0, 1))
    return {1: (1, 1, 2), 2: (1, 1, 2)}.get(gen, (1, 0, 1))


def bound(tier, scn, gen=1):
    return plan(tier, gen)[2]


def bounds(tier):
    return {'generations': GRAPH[tier], 'burst_per_generation(requests,deaths,bound)': {str(g): plan(tier, g) for g in range(1, GRAPH[tier] + 1)},
            'numprocesses': '0..3', 'graceful_timeout': G, 'warmup_delay': [0, 0.25],
            'death_statuses': ['exit 1', 'SIGKILL'], 'check_delay': 1.0,
            'patterns': ['obedient', 'slow', 'stubborn', 'first-stubborn']}


def alphabet(scn):
    def menu(world):
        w = world.watcher('a')
        evs = []
        if w is None:
            return evs
        if w.numprocesses < NP_CAP:
            evs.append(Req('incr', name='a'))
        if w.numprocesses + 2 <= NP_CAP:
            evs.append(Req('incr', label='incr(nb=2)', name='a', nb=2))
        evs.append(Req('decr', name='a'))
        evs.append(Req('decr', label='decr(nb=2)', name='a', nb=2))
        evs.append(Req('decr', label='decr(nb=9)', name='a', nb=9))
        evs.append(Req('incr', label='incr(nb=-9)', name='a', nb=-9))      # nothing validates the sign of nb
        for k in (0, 1, 2, 3):
            if k != w.numprocesses:
                evs.append(Req('set', label='set(np=%d)' % k, name='a', options={'numprocesses': k}))
        evs.append(Req('restart', name='a'))
        evs.append(Req('reload', label='reload(graceful)', name='a'))
        evs.append(Req('reload', label='reload(sequential)', name='a', sequential=True))
        evs.append(Req('reload', label='reload(terminate)', name='a', graceful=False))
        evs.append(Req('kill', label='kill(all)', name='a'))
        pids = sorted(w.processes)
        if pids:
            evs.append(Req('kill', label='kill(first)', name='a', pid=pids[0]))
        return evs
    return menu


def run(scn, ch):
    res = Result()

    def make_world(ch):
        opts = dict(graceful_timeout=G, warmup_delay=scn.w, singleton=scn.singleton)
        hook_world = []
        if scn.p.get('reject'):
            from props.common import nth_hook

            class _W(object):
                hook_calls = []
            opts['hooks'] = {'after_spawn': (nth_hook(_W, scn.p['reject'], False), False)}
            hook_world.append(_W)
        if scn.max_age:
            opts.update(max_age=scn.max_age, max_age_variance=1)
        # 'z' is a bystander watcher: state hoisted to a shared scope would show up as a disturbance of z
        zopts = {}
        if scn.p.get('streams'):
            # (a stream given by class name: the `options` reply the oracle reads stays encodable)
            opts['stdout_stream'] = {'class': 'QueueStream'}
            zopts['stdout_stream'] = {'class': 'QueueStream'}
        specs_ = [WSpec('a', numprocesses=scn.n0, behaviours=pattern(scn.pat), **opts)]
        if not scn.p.get('solo'):
            specs_.append(WSpec('z', numprocesses=1, graceful_timeout=G, **zopts))
        world = World(ch, specs_, check_delay=scn.p.get('tick', 1.0))
        world.deaths_only = ('a', 'z') if scn.p.get('streams') else ('a',)
        for hw in hook_world:
            world.hook_counters = hw.hook_counters
        if scn.p.get('fault'):
            j = scn.p['fault']
            world.kernel.popen_fault = lambda k, attempt, info: OSError(11, 'EAGAIN') if attempt == j else None
        if scn.max_age:
            world.randint_hook = lambda a, b: (a, b)[world.ex.choose('randint', ['min', 'max'], cost=1)]
        return world

    tier = scn.tier

    def budgets(g):
        r, d, _ = plan(tier, g)
        return {'req': r, 'die': d}

    def on_quiescent(world, res, gen, win):
        w = world.watcher('a')
        if w is None or w.status() != 'active' or not w.respawn:
            # nothing in this alphabet stops a watcher: only a rejecting hook or a failing process creation (scenarios that
            # have them) may legitimately take it out of the active state
            legit = bool(scn.p.get('reject') or scn.p.get('fault'))
            res.check('C01.stays_active', legit or (w is not None and not w.respawn),
                      lambda: 'watcher a is %s after %s although no request stopped it (numprocesses=%s)'
                      % (w.status() if w is not None else 'gone', [e.label for _, e in win.applied],
                         getattr(w, 'numprocesses', None)), where='watcher.manage_processes/unrequested-stop')
            return
        if scn.max_age:
            # with max_age on, expiry is a legitimate cause of spawns/signals: only the count is checked
            n = len(live(world, 'a'))
            res.check('C01.count_eq_target', n == w.numprocesses or any(p.stopping for p in w.processes.values()),
                      lambda: 'live=%d target=%d (max_age world)' % (n, w.numprocesses), where='watcher.manage_processes')
            return
        lz = live(world, 'z') if world.watcher('z') is not None else None
        zsig = [x for x in world.kernel.signal_log if x[3] != 'os.kill' and world.kernel.procs[x[1]].watcher == 'z']
        res.check('C01.bystander_untouched', lz is None or (len(lz) == 1 and not zsig and world.watcher('z').numprocesses == 1 and
                                                            sorted(world.watcher('z').processes) == [p.pid for p in lz]),
                  lambda: 'bystander watcher z: %d live workers, of which it knows %s, signals %s, numprocesses %s (after %s)'
                  % (len(lz), sorted(world.watcher('z').processes), zsig, world.watcher('z').numprocesses,
                     [e.label for _, e in win.applied]),
                  where='watcher', nontrivial=bool(win.applied))
        lv = live(world, 'a')
        n = len(lv)
        target = numprocesses_of(world, 'a')           # the daemon's own count of listed processes
        opt = dict(world.ask('options', name='a').get('options', {})).get('numprocesses')
        res.check('C01.count_eq_target', n == opt == target,
                  lambda: 'live workers=%d, numprocesses option=%r, numprocesses reply=%r after 3 checks; events=%s'
                  % (n, opt, target, [e.label for _, e in win.applied]),
                  where='watcher.manage_processes', nontrivial=bool(win.applied))
        res.check('C01.nonneg', opt is not None and opt >= 0, 'negative numprocesses %r' % opt, where='watcher.set_numprocesses',
                  nontrivial=any(e.label.startswith('req(decr') or 'np=0' in e.label for _, e in win.applied))
        if scn.singleton:
            res.check('C01.singleton_le_1', n <= 1 and opt <= 1, lambda: 'singleton with %d live / np=%r' % (n, opt),
                      where='watcher.set_numprocesses')
        # generation: after a completed restart / reload every live worker is younger than the request
        for where_, ev in win.applied:
            lab = ev.label
            if lab.startswith('req(restart') or lab.startswith('reload('):
                rq = ev.request
                if rq is not None and rq.ok():
                    old = [p.pid for p in lv if p.spawn_time < rq.t - 1e-9]
                    site = 'watcher._restart' if 'restart' in lab or 'terminate' in lab else 'watcher._reload'
                    repl_died = [p.pid for p in world.procs_of('a') if p.spawn_time >= rq.t - 1e-9 and
                                 p.death_time is not None and p.death_time <= world.window_end and
                                 (getattr(p, 'death_cause', None) in ('external', 'self') or
                                  not any(s in (9, 15) and via != 'os.kill' for (_, s, via) in p.signals))]
                    if old and repl_died and site == 'watcher._reload':
                        site = 'watcher._reload/replacement-died-by-itself'
                    res.check('C01.generation', not old,
                              lambda: '%s accepted at t=%.3f but workers %s were started before it' % (lab, rq.t, old),
                              where=site)
        # fixpoint: two further checks neither spawn nor signal
        ns, nsig = len(world.kernel.spawn_log), len(world.kernel.signal_log)
        world.settle(2)
        res.check('C01.fixpoint', len(world.kernel.spawn_log) == ns and len(world.kernel.signal_log) == nsig,
                  lambda: 'idle checks at the converged state spawned %d / signalled %d (%s)' % (
                      len(world.kernel.spawn_log) - ns, len(world.kernel.signal_log) - nsig,
                      world.kernel.signal_log[nsig:]),
                  where='watcher.manage_processes')

    def on_window_end(world, res, gen, win, why):
        res.check('C01.bounded', why == 'until',
                  lambda: 'daemon not quiescent %.1fs after the burst %s (slot=%r timers=%s)' % (
                      12.0, [e.label for _, e in win.applied], world.slot(), world.loop.live_timers()),
                  where='watcher.manage_processes', nontrivial=bool(win.applied))

    return run_history(scn, ch, make_world, alphabet(scn), budgets, on_quiescent, res=res,
                       on_window_end=on_window_end, abort_clause=None)

"""C15 — The watcher directory stays coherent; names are unique ignoring case."""
import itertools
import json

from props.common import *      # noqa: F401,F403
from props.common import G, write_ini, Scratch
from vt.clock import CLOCK
from vt.explorer import Chooser, digest
from vt.main import EnumResult
from vt.simkernel import PID_BASE, RUNNING
from vt.world import World, WSpec, Abort

ID = 'C15'
KINDS = ['enum']
USES_KERNEL = True
LEVEL = 'model_checking'
TECHNIQUE = ('exhaustive enumeration of all request sequences up to a depth over a small name pool, each replayed on a '
             'fresh real daemon and compared step by step with a reference model (a set of lower-cased names)')
RULE = ('all sequences of length <= D over {add n, add n + start, rm n, rm n nostop, start n, stop n, reloadconfig F} with n '
        'from the name pool (case variants, empty, with blank, non-ASCII) and F from files holding subsets of the pool; '
        'after every step the four views (list, numwatchers, status, stats) are compared with each other and with the '
        'reference set, every watcher is addressed in other letter cases, removed watchers must be gone and their workers '
        'dead (unless nostop). Non-trivial = the sequence contains at least one accepted add or rm.')
ASSUMPTIONS = ['configuration files in the alphabet never define two names equal ignoring case (such files are outside the property)']

FILES = {'F0': [], 'Fa': ['a'], 'Fab': ['a', 'b'], 'FA': ['A'], 'Fb': ['b']}


def pool(tier, depth):
    if depth >= 4 or (tier == 'quick' and depth >= 3):
        return ['a', 'A', 'b']
    return ['a', 'A', 'b', '', 'a b', 'ä', '\ud800x']       # the last one: JSON can carry it, UTF-8 cannot encode it


def _valid(name):
    if name == '':
        return False
    try:
        name.encode('utf-8')
        return True
    except UnicodeError:
        return False


def alphabet(tier, depth):
    names = pool(tier, depth)
    ops = []
    for n in names:
        ops.append(('add', n))
        ops.append(('add+start', n))
    for n in sorted(set(names + ['B'])):
        ops.append(('rm', n))
        ops.append(('rm-nostop', n))
    for n in ('a', 'A', 'b', ''):           # the empty name names no watcher - it does not mean "all of them"
        ops.append(('start', n))
        ops.append(('stop', n))
    for f in (FILES if depth < 4 else ('F0', 'Fa', 'FA')):
        ops.append(('reloadconfig', f))
    if depth <= 2:
        # a reload whose last watcher cannot be started (its stdin_socket names no socket), and a reload observed while
        # its last watcher is still between two warmup-paced spawns
        for f in ('Fab', 'Fb', 'FA'):
            ops.append(('reloadconfig-bad', f))
            ops.append(('reloadconfig-mid', f))
        # rm / add sent while a (warmup-paced) reload is in progress: answered ok means done, refused means nothing happened
        for n in ('a', 'A', 'b'):
            ops.append(('rm-busy', n))
        ops.append(('add-busy', 'new'))
    return ops


def depths(tier):
    return [1, 2, 3] if tier == 'quick' else [1, 2, 3, 4]


def bounds(tier):
    return {'depths': depths(tier), 'alphabet_sizes': {str(d): len(alphabet(tier, d)) for d in depths(tier)},
            'name_pool_full': pool('thorough', 1), 'name_pool_reduced': pool('thorough', 4), 'files': FILES,
            'initial_watchers': ['a', 'b']}


def shards(tier):
    out = []
    for d in depths(tier):
        ops = alphabet(tier, d)
        if d == 1:
            out.append((d, None, None))
        elif d == 2:
            for i in range(len(ops)):
                out.append((d, i, None))
        else:
            for i in range(len(ops)):
                for j in range(len(ops)):
                    out.append((d, i, j))
    return out


def sequences(tier, shard):
    d, i, j = shard
    ops = alphabet(tier, d)
    if d == 1:
        for o in ops:
            yield [o]
    elif d == 2:
        for o in ops:
            yield [ops[i], o]
    else:
        for rest in itertools.product(ops, repeat=d - 2):
            yield [ops[i], ops[j]] + list(rest)


def run_shard(shard, tier):
    r = EnumResult()
    for seq in sequences(tier, shard):
        r.cases += 1
        case = {'seq': [list(o) for o in seq]}
        run_seq(r, case)
        if len(r.samples) < 2:
            r.samples.append(case)
    return r


def views(w):
    out = {}
    rep = w.ask('list')
    out['list'] = rep.get('watchers') if rep and rep.get('status') == 'ok' else repr(rep)
    rep = w.ask('numwatchers')
    out['numwatchers'] = rep.get('numwatchers') if rep else None
    rep = w.ask('status')
    out['status'] = sorted(rep.get('statuses', {})) if rep and rep.get('status') == 'ok' else repr(rep)
    rep = w.ask('stats')
    out['stats'] = sorted(rep.get('infos', {})) if rep and rep.get('status') == 'ok' else repr(rep)
    return out


def run_seq(r, case):
    seq = case['seq']
    scratch = Scratch()
    ini = scratch.path('c.ini')
    wopts = dict(cmd='sleep 60', numprocesses=1, graceful_timeout=0.1)
    write_ini(ini, [('a', wopts), ('b', wopts)])
    w = World(Chooser(), [], config_file=ini)
    ref = {'a': 'a', 'b': 'b'}            # lower -> actual name
    shape = '+'.join(o[0] for o in seq)
    try:
        w.boot()
        w.run(until=lambda x: x.boot_future.done(), horizon=5)
        accepted_change = False
        by_command = set()
        for step, (op, arg) in enumerate(seq):
            where = 'arbiter.%s' % {'add': 'add_watcher', 'add+start': 'add_watcher', 'rm': 'rm_watcher',
                                   'rm-nostop': 'rm_watcher', 'reloadconfig': 'reload_from_config',
                                   'reloadconfig-bad': 'reload_from_config', 'reloadconfig-mid': 'reload_from_config',
                                   'rm-busy': 'rm_watcher/while-another-command-runs', 'add-busy': 'add_watcher/while-another-command-runs'}.get(op, op)
            desc = lambda: 'step %d %s(%r) of %s' % (step, op, arg, json.dumps(seq))     # noqa: E731
            victims = None
            if op in ('add', 'add+start'):
                rq = w.request('add', name=arg, cmd='sleep 60', start=(op == 'add+start'),
                               options={'graceful_timeout': 0.1})
                ok = rq.ok()
                expect_ok = arg.lower() not in ref and _valid(arg)
                if ok:
                    accepted_change = True
                if ok and _valid(arg) and arg.lower() not in ref:
                    ref[arg.lower()] = arg
                    by_command.add(arg.lower())
                r.check('C15.add_ok_means_exists', not ok or (arg.lower() in ref and _valid(arg)),
                        lambda: desc() + ': add answered ok but no such watcher can exist (empty name): %r' % rq.reply(),
                        where + ('/empty-name' if arg == '' else ''), case, fp='add-ok-' + ('empty' if arg == '' else 'x'))
                r.check('C15.unique_ignoring_case', ok == expect_ok or not _valid(arg),
                        lambda: desc() + ': add %r answered %r, existing names %s' % (arg, rq.reply(), sorted(ref.values())),
                        where, case, fp='add-unique', nontrivial=arg.lower() in ref)
            elif op in ('rm', 'rm-nostop'):
                tgt = w.watcher(arg) if arg else None
                victims = sorted(tgt.processes) if tgt is not None else []
                props = {'name': arg}
                if op == 'rm-nostop':
                    props['nostop'] = True
                rq = w.request('rm', **props)
                ok = rq.ok()
                r.check('C15.case_routing', ok == (arg.lower() in ref),
                        lambda: desc() + ': rm %r answered %r, existing %s' % (arg, rq.reply(), sorted(ref.values())),
                        where, case, fp='rm-routing', nontrivial=arg.lower() in ref)
                if ok:
                    accepted_change = True
                    ref.pop(arg.lower(), None)
            elif op in ('rm-busy', 'add-busy'):
                ws_ = [(n_, dict(wopts)) for n_ in sorted(ref.values())] or [('a', dict(wopts))]
                ws_[-1][1].update(numprocesses=2, warmup_delay=1, cmd='sleep 61')
                write_ini(ini, ws_)
                rl = w.request('reloadconfig')
                w.run(horizon=0.3)
                if rl.ok():
                    ref = {n_.lower(): n_ for n_, _ in ws_}
                if op == 'rm-busy':
                    rq = w.request('rm', name=arg)
                    if rq.ok():
                        ref.pop(arg.lower(), None)
                else:
                    rq = w.request('add', name=arg, cmd='sleep 60', options={'graceful_timeout': 0.1})
                    if rq.ok():
                        ref[arg.lower()] = arg
                        by_command.add(arg.lower())
                accepted_change = accepted_change or rq.ok()
                lenient = bool(by_command & set(ref))
            elif op in ('start', 'stop'):
                rq = w.request(op, name=arg, **({'match': 'simple'} if arg else {}))
                r.check('C15.case_routing', rq.ok() == (arg.lower() in ref),
                        lambda: desc() + ': %s %r answered %r, existing %s' % (op, arg, rq.reply(), sorted(ref.values())),
                        'commands.base._get_watcher', case, fp='routing', nontrivial=arg.lower() in ref)
            elif op in ('reloadconfig', 'reloadconfig-bad', 'reloadconfig-mid'):
                ws = [(n, dict(wopts)) for n in FILES[arg]]
                if op == 'reloadconfig-bad':
                    # the section changes (so the watcher is re-created) and its next process creation fails the way a
                    # pre-exec failure does (stdin_socket naming no socket, unknown uid...): subprocess.SubprocessError
                    ws[-1][1]['stdin_socket'] = 'nosuchsocket'
                    bad = ws[-1][0].lower()

                    def fault(kernel, attempts, info, bad=bad):
                        import subprocess
                        if (info.get('watcher') or '').lower() == bad:
                            return subprocess.SubprocessError('Exception occurred in preexec_fn.')
                        return None
                    w.kernel.popen_fault = fault
                elif op == 'reloadconfig-mid':
                    ws[-1][1].update(numprocesses=2, warmup_delay=1)
                write_ini(ini, ws)
                rq = w.request('reloadconfig')
                lenient = bool(by_command & set(ref)) or op == 'reloadconfig-bad'
                if rq.ok():
                    ref = {n.lower(): n for n in FILES[arg]}
                if op == 'reloadconfig-mid':
                    w.run(horizon=0.3)
                    vm = views(w)
                    keys = [sorted(x.lower() for x in vm[k]) if isinstance(vm[k], list) else vm[k]
                            for k in ('list', 'status', 'stats')]
                    r.check('C15.views_agree', keys[0] == keys[1] == keys[2] and vm['numwatchers'] == len(keys[0]),
                            lambda: desc() + ': while the reload is in progress the views disagree: %s' % json.dumps(vm, default=repr),
                            where + '/in-progress', case, fp='views-mid', nontrivial=True)
            w.run(until=lambda x: x.slot() is None and not x.stopping_processes() and not x.loop.has_ready(), horizon=4)
            if victims is not None and rq.ok():
                alive = [p for p in victims if w.kernel.procs[p].state == RUNNING]
                if op == 'rm':
                    r.check('C15.rm_stops', not alive, lambda: desc() + ': workers %s of the removed watcher still run' % alive,
                            where, case, fp='rm-stops', nontrivial=bool(victims))
                else:
                    r.check('C15.rm_nostop_keeps', alive == victims, lambda: desc() + ': nostop but workers were stopped', where,
                            case, fp='rm-nostop', nontrivial=bool(victims))
            w.kernel.popen_fault = None
            v = views(w)
            if (op.startswith('reloadconfig') or op.endswith('-busy')) and lenient and isinstance(v['list'], list):
                # reloadconfig over watchers created by `add` is outside C12/C15 (it fails on their missing _cfg):
                # only the coherence of the views among themselves is judged for this step
                ref = {n.lower(): n for n in v['list']}
                by_command &= set(ref)
            names = sorted(ref.values())
            lows = sorted(ref)
            lst = v['list']
            agree = (isinstance(lst, list) and sorted(x.lower() for x in lst) == lows and
                     isinstance(v['status'], list) and sorted(x.lower() for x in v['status']) == lows and
                     isinstance(v['stats'], list) and sorted(x.lower() for x in v['stats']) == lows and
                     v['numwatchers'] == len(lows))
            r.check('C15.views_agree', agree,
                    lambda: desc() + ': views %s, reference %s' % (json.dumps(v, default=repr), names), where, case,
                    fp='views-' + op, nontrivial=accepted_change)
            if isinstance(lst, list):
                r.check('C15.unique_ignoring_case', len(set(x.lower() for x in lst)) == len(lst),
                        lambda: desc() + ': list holds names equal ignoring case: %s' % lst, where, case, fp='dups')
            for n in ('a', 'b', 'new'):
                if n not in ref:
                    rep = w.ask('options', name=n)
                    r.check('C15.rm_removes', rep is not None and rep.get('status') == 'error',
                            lambda: desc() + ': %r is in no view but still answers by name' % n, where, case, fp='ghost')
            # every watcher reachable in any letter case, and reaches the same watcher
            for low, actual in sorted(ref.items()):
                answers = []
                for variant in sorted(set([actual, actual.upper(), actual.lower(), actual.swapcase()])):
                    rep = w.ask('options', name=variant)
                    answers.append((variant, None if rep is None or rep.get('status') != 'ok' else
                                    digest(rep.get('options'))))
                r.check('C15.case_routing', len(set(a for _, a in answers)) == 1 and answers[0][1] is not None,
                        lambda: desc() + ': addressing %r in different cases gives %s' % (actual, answers),
                        'commands.base._get_watcher', case, fp='routing-views')
        if accepted_change:
            r.nontrivial_count += 1
        r.outcomes.add(digest([sorted(ref), shape]))
    except Abort as e:
        r.fail('C15.no_exception', 'blocked: %s in %s' % (e, json.dumps(seq)), w.blocked_site(), case, fp='blocked')
    finally:
        w.close()
        scratch.close()


def replay_case(case):
    r = EnumResult()
    run_seq(r, case)
    return [(v['clause'], v['detail'], v['where']) for v in r.violations]

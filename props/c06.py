"""C06 — Every control request gets exactly one well-formed reply bearing its id.

Server half (this file): bounded-exhaustive message enumeration against the real Controller /
commands / Arbiter in three base daemon states, plus asynchronously failing operations.
Client half: props/c06_client.py.
"""
import itertools
import json

from props.common import *      # noqa: F401,F403
from props.common import pattern, G
from vt.canon import canon
from vt.clock import CLOCK
from vt.explorer import Chooser, digest
from vt.main import EnumResult
from vt.simkernel import slow, PID_BASE
from vt.world import World, WSpec, Abort

try:
    from props import c06_client as CL
except Exception:       # the client half is optional while it is being built
    CL = None

ID = 'C06'
KINDS = ['enum']
USES_KERNEL = True
LEVEL = 'exploration'
TECHNIQUE = ('bounded-exhaustive enumeration of control messages (envelope grammar, byte-level damage, per-command '
             'property products, asynchronously failing operations) x base daemon states, executed on the real '
             'controller and commands under the simulated kernel; client: exhaustive reply scripts')
RULE = ('server: (a) every JSON envelope from the grammar top in {null,true,0,1.5,"s",[],[1],{}} U objects whose fields '
        'id/command/properties/msg_type each range over {absent,null,0,"x",[],{},valid} (7^4) x 2 commands, plus byte-level '
        'cases (empty, blank, every truncation of a valid message, invalid UTF-8, NUL, 1- and 3-frame messages); (b) for each '
        'of the 25 registered commands the full product of its properties over small domains of valid and invalid values; '
        '(c) every state-changing command x waiting on/off whose operation fails asynchronously; each message in each of 3 '
        'base states (idle / exclusive operation in flight / watcher stopped). A case is non-trivial when the reply is an '
        'error or the message is malformed; distinct = distinct (message, base state).')
ASSUMPTIONS = ['the reply of `status` with a watcher name carries the watcher status in its status field (documented '
               'response shape of that command); every other reply must have status ok or error',
               'frames are observed at stream.send; a message that is not a 2-frame [identity, payload] pair has no '
               'addressable sender: only "no exception / still serving" is required for those']

ABSENT = '<absent>'
BASES = ['idle', 'busy', 'stopped']
STATUS_WORDS = ('active', 'stopped', 'starting', 'stopping')


def bounds(tier):
    b = {'envelope_objects': 7 ** 4 * 2, 'base_states': BASES, 'commands': sorted(DOMAINS),
         'per_command_domain_sizes': {c: {k: len(v) for k, v in d.items()} for c, d in sorted(DOMAINS.items())}}
    if CL is not None:
        b['client'] = CL.client_bounds(tier)
    return b


# ---------------------------------------------------------------------------
WNAME = [ABSENT, 'a', 'A', 'nosuch', 0, None]
WAIT = [ABSENT, True]
SIGNUM = [ABSENT, 15, 'term', 'bogus', None, 999]
PID = [ABSENT, '<live>', 'x', 0, '<dead>', None]

DOMAINS = {
    'add': {'name': WNAME + ['new', ''], 'cmd': [ABSENT, 'sleep 1', 0], 'start': [ABSENT, True],
            'options': [ABSENT, {}, {'numprocesses': 2}, {'numprocesses': 'x'}, {'bogus': 1}, 'x', None,
                        {'singleton': True, 'numprocesses': 2}, {'hooks': {'before_start': 'no.such.fn'}}]},
    'decr': {'name': WNAME, 'nb': [ABSENT, 1, 0, -1, 'x', None, 1.5], 'waiting': WAIT},
    'incr': {'name': WNAME, 'nb': [ABSENT, 1, 0, -1, 'x', None, 1.5], 'waiting': WAIT},
    'dstats': {},
    'get': {'name': WNAME, 'keys': [ABSENT, ['numprocesses'], ['nosuch'], 'numprocesses', None, []]},
    'globaloptions': {'option': [ABSENT, 'endpoint', 'nosuch', 0, None]},
    'ipython': {},
    'kill': {'name': WNAME, 'pid': PID, 'signum': SIGNUM, 'graceful_timeout': [ABSENT, 0.1, 'x', None], 'waiting': WAIT},
    'list': {'name': WNAME},
    'listen': {},
    'listsockets': {},
    'numprocesses': {'name': WNAME},
    'numwatchers': {},
    'options': {'name': WNAME},
    'quit': {'waiting': WAIT},
    'reload': {'name': WNAME, 'graceful': [ABSENT, True, False, 'x'], 'sequential': [ABSENT, True], 'waiting': WAIT},
    'reloadconfig': {'waiting': WAIT},
    'restart': {'name': WNAME + ['*', '['], 'match': [ABSENT, 'simple', 'glob', 'regex', 'bogus', 0], 'waiting': WAIT},
    'start': {'name': WNAME + ['*', '['], 'match': [ABSENT, 'simple', 'glob', 'regex', 'bogus', 0], 'waiting': WAIT},
    'stop': {'name': WNAME + ['*', '['], 'match': [ABSENT, 'simple', 'glob', 'regex', 'bogus', 0], 'waiting': WAIT},
    'rm': {'name': WNAME, 'nostop': [ABSENT, True], 'waiting': WAIT},
    'set': {'name': WNAME, 'waiting': WAIT,
            'options': [ABSENT, {'numprocesses': 2}, {'numprocesses': 'x'}, {'bogus': 1}, {}, 'x', None,
                        {'graceful_timeout': 0.3, 'bogus': 1}, {'uid': 'nosuchuser'},
                        {'hooks': {'before_start': 'no.such.fn'}}, {'stop_signal': 'term'}, {'stop_signal': 3},
                        {'env': {'A': 'b'}}, {'env': 'x'}, {'cmd': 'sleep 2'}, {'hooks.before_start': 'no.such.fn'}]},
    'signal': {'name': WNAME, 'signum': SIGNUM, 'pid': PID, 'children': [ABSENT, True], 'recursive': [ABSENT, True],
               'childpid': [ABSENT, 1]},
    'stats': {'name': WNAME, 'process': PID, 'extended': [ABSENT, True]},
    'status': {'name': WNAME},
}

ASYNC_CMDS = [('start', {'name': 'a'}), ('restart', {'name': 'a'}), ('incr', {'name': 'a', 'nb': 2}),
              ('reload', {'name': 'a'}), ('reload', {'name': 'a', 'sequential': True}),
              ('set', {'name': 'a', 'options': {'numprocesses': 4}}), ('set', {'name': 'a', 'options': {'cmd': 'sleep 9'}}),
              ('add', {'name': 'n', 'cmd': 'sleep 1', 'start': True}), ('reloadconfig', {}),
              ('start', {}), ('restart', {'name': '*'}), ('decr', {'name': 'a', 'nb': 'x'}),
              ('stop', {'name': 'a'}), ('rm', {'name': 'a'}), ('kill', {'name': 'a'})]
FAULTS = ['popen-runtimeerror@1', 'popen-runtimeerror@2', 'popen-oserror-all', 'hook-raise', 'none']


def envelope_cases():
    out = []
    for top in (None, True, 0, 1.5, 's', [], [1], {}):
        out.append({'kind': 'top', 'json': top})
    vals = {'id': [ABSENT, None, 0, 'x', [], {}, 'id-1'],
            'properties': [ABSENT, None, 0, 'x', [], {}, {'name': 'a'}],
            'msg_type': [ABSENT, None, 0, 'x', [], {}, 'cast']}
    for cmdname in ('numprocesses', 'incr'):
        cvals = [ABSENT, None, 0, 'x', [], {}, cmdname]
        for i, c, p, m in itertools.product(vals['id'], cvals, vals['properties'], vals['msg_type']):
            msg = {}
            if i != ABSENT:
                msg['id'] = i
            if c != ABSENT:
                msg['command'] = c
            if p != ABSENT:
                msg['properties'] = p
            if m != ABSENT:
                msg['msg_type'] = m
            out.append({'kind': 'obj', 'json': msg})
    return out


def byte_cases():
    valid = json.dumps({'id': 'b1', 'command': 'numwatchers', 'properties': {}}).encode()
    out = [{'kind': 'bytes', 'hex': b''.hex()}, {'kind': 'bytes', 'hex': b'   '.hex()}, {'kind': 'bytes', 'hex': b'\n\t'.hex()}]
    for i in range(1, len(valid)):
        out.append({'kind': 'bytes', 'hex': valid[:i].hex()})
    out.append({'kind': 'bytes', 'hex': b'\xff\xfe{"command": "numwatchers"}'.hex()})
    out.append({'kind': 'bytes', 'hex': b'{"command": "num\xffwatchers"}'.hex()})
    out.append({'kind': 'bytes', 'hex': b'{"command": "numwatchers", "id": "\x00"}'.hex()})
    out.append({'kind': 'bytes', 'hex': (valid + b'\x00').hex()})
    out.append({'kind': 'bytes', 'hex': (valid + valid).hex()})
    out.append({'kind': 'frames', 'n': 1})
    out.append({'kind': 'frames', 'n': 3})
    out.append({'kind': 'frames', 'n': 0})
    return out


def command_cases(cmd):
    dom = DOMAINS[cmd]
    keys = sorted(dom)
    out = []
    for combo in itertools.product(*[dom[k] for k in keys]):
        props = {k: v for k, v in zip(keys, combo) if v != ABSENT}
        out.append({'kind': 'cmd', 'command': cmd, 'props': props})
    return out


def shards(tier):
    out = []
    env = envelope_cases()
    CH = 150
    for base in BASES:
        for i in range(0, len(env), CH):
            out.append(('env', base, i, i + CH))
        out.append(('bytes', base, 0, 10 ** 6))
        for cmd in sorted(DOMAINS):
            n = len(command_cases(cmd))
            for i in range(0, n, CH):
                out.append(('cmd:' + cmd, base, i, i + CH))
    for ci in range(len(ASYNC_CMDS)):
        out.append(('async', 'idle', ci, ci + 1))
    if CL is not None:
        for s in CL.client_shards(tier):
            out.append(('client', s))
    return out


# ---------------------------------------------------------------------------
class Daemon(object):
    """A world in a base state, reused for as long as the messages leave it unchanged."""

    def __init__(self, base):
        self.base = base
        self.world = None

    def get(self):
        if self.world is None:
            self.world = self._make()
        return self.world

    def _make(self):
        # (the stderr of `a` is captured by a stream OBJECT: the replies of options / get then hold something that cannot
        # be JSON-encoded - a request that is valid, carried out, and fails only when its reply is built)
        w = World(Chooser(), [WSpec('a', numprocesses=2, graceful_timeout=G, warmup_delay=0.0, max_retry=2,
                                    behaviours=[slow(0.1)], stderr_stream={'stream': _Sink()}),
                              WSpec('b', numprocesses=1, graceful_timeout=G)])
        w.boot()
        w.run(until=lambda x: x.boot_future.done(), horizon=5)
        w.run(horizon=0.3)
        w.live_pid = sorted(w.watcher('a').processes)[0]
        # a dead pid: spawn-and-kill bookkeeping is not needed, any never-used sim pid is "dead"
        w.dead_pid = PID_BASE + 999
        if self.base == 'stopped':
            w.request('stop', name='a')
            w.run(until=lambda x: x.slot() is None, horizon=3)
        elif self.base == 'busy':
            w.watcher('b').warmup_delay = 30.0
            w.request('incr', name='b', nb=2)        # holds the exclusive slot for 30 s of virtual time
            assert w.slot() is not None
        w.base_digest = self._digest(w)
        return w

    def _digest(self, w):
        return (canon(w), len(w.kernel.spawn_log), len(w.kernel.signal_log))

    def discard(self):
        if self.world is not None:
            try:
                self.world.close()
            finally:
                self.world = None

    def after(self, quiesce=True):
        """Discard the world if the message changed it."""
        w = self.world
        if w is None:
            return
        if CLOCK.blocked is not None or self._digest(w) != w.base_digest or \
                w.arbiter._stopping or not w.arbiter.ctrl.started:
            self.discard()


def _subst(v, w):
    if v == '<live>':
        return w.live_pid
    if v == '<dead>':
        return w.dead_pid
    return v


def make_frames(case, w, n):
    cid = ('k%d' % n).encode()
    kind = case['kind']
    if kind in ('top', 'obj'):
        return [cid, json.dumps(case['json']).encode()], case['json']
    if kind == 'bytes':
        raw = bytes.fromhex(case['hex'])
        try:
            js = json.loads(raw.strip()) if raw.strip() else '<nojson>'
        except Exception:
            js = '<nojson>'
        return [cid, raw], js
    if kind == 'frames':
        payload = json.dumps({'id': 'f', 'command': 'numwatchers', 'properties': {}}).encode()
        return {0: [], 1: [payload], 3: [cid, b'', payload]}[case['n']], '<frames>'
    if kind == 'cmd':
        props = {k: _subst(v, w) for k, v in case['props'].items()}
        msg = {'id': 'q%d' % n, 'command': case['command'], 'properties': props}
        return [cid, json.dumps(msg).encode()], msg
    raise ValueError(kind)


class _Sink(object):
    def __call__(self, data):
        pass


def judge(r, case, base, w, req, js, where_default):
    """One-reply oracle for a delivered message."""
    desc = lambda: 'base=%s message=%s' % (base, json.dumps(case, default=repr)[:300])     # noqa: E731
    if case['kind'] == 'frames':
        r.check('C06.no_exception', req.escaped is None, lambda: '%s: exception escaped: %s' % (desc(), req.escaped),
                where='controller.handle_message', case=case, fp='frames-exc')
        return
    is_obj = isinstance(js, dict)
    cast = is_obj and js.get('msg_type') == 'cast'
    want_id = js.get('id') if is_obj else None
    raws = req.raw_replies()
    malformed = (not is_obj) or not isinstance(js.get('command'), str) or not isinstance(js.get('properties', {}), dict)
    shape = _shape(case, js)
    if req.escaped is not None:
        r.check('C06.one_reply', False, lambda: '%s: no reply, exception escaped from handle_message: %s [shape=%s]'
                % (desc(), req.escaped, shape), where='controller.dispatch/' + shape, case=case, fp='escaped-' + shape)
        return
    expect = 0 if cast else 1
    r.check('C06.one_reply', len(raws) == expect,
            lambda: '%s: %d replies, expected %d [shape=%s]' % (desc(), len(raws), expect, shape),
            where=where_default + '/' + shape, case=case, fp='count-%s-%d' % (shape, len(raws)), nontrivial=malformed or cast)
    for t, fr in raws[:1]:
        ok_frames = len(fr) == 2
        try:
            rep = json.loads(fr[1])
        except Exception:
            rep = None
        well = ok_frames and isinstance(rep, dict)
        r.check('C06.well_formed', well, lambda: '%s: reply frames %r' % (desc(), fr), where=where_default, case=case,
                fp='illformed-' + shape)
        if not well:
            continue
        r.check('C06.reply_id', rep.get('id') == want_id and 'id' in rep,
                lambda: '%s: reply id %r, request id %r' % (desc(), rep.get('id'), want_id), where=where_default,
                case=case, fp='id-' + shape, nontrivial=want_id is not None)
        st = rep.get('status')
        status_cmd = is_obj and js.get('command') == 'status' and isinstance(js.get('properties'), dict) and \
            'name' in js['properties']
        r.check('C06.status_ok_or_error', st in ('ok', 'error') or (status_cmd and st in STATUS_WORDS),
                lambda: '%s: reply status %r' % (desc(), st), where=where_default, case=case, fp='status-' + shape)
        r.outcomes.add(digest([shape, st, rep.get('errno')]))
        if st == 'error' or malformed:
            r.nontrivial.add(digest([case, base]))


def _shape(case, js):
    if case['kind'] == 'bytes':
        raw = bytes.fromhex(case['hex'])
        if not raw.strip():
            return 'empty'
        return 'bytes'
    if not isinstance(js, dict):
        return 'non-object-json'
    if not isinstance(js.get('command'), str):
        return 'command-not-a-string'
    if case['kind'] == 'cmd':
        return 'cmd-' + case['command']
    return 'object'


def run_case(r, d, case, n):
    w = d.get()
    base = d.base
    frames, js = make_frames(case, w, n)
    r.cases += 1
    n_before = len(w.stream_messages())
    try:
        req = w.send_raw(frames, command=js.get('command') if isinstance(js, dict) else None)
    except Abort as e:
        r.check('C06.no_exception', False, 'base=%s %s: loop blocked: %s' % (base, case, e),
                where=w.blocked_site(), case=case, fp='blocked')
        d.discard()
        return
    waiting = isinstance(js, dict) and isinstance(js.get('properties'), dict) and js['properties'].get('waiting')
    accepted_quit = isinstance(js, dict) and js.get('command') in ('quit', 'restart') and w.arbiter._stopping
    # let an accepted operation run to its end (bounded): the reply of a waiting request is due by then, and no
    # second frame may appear for anyone
    try:
        if w.slot() is not None and base != 'busy' or w.stopping_processes() or w.loop.has_ready():
            w.run(until=lambda x: (x.slot() is None or base == 'busy') and not x.stopping_processes() and
                  not x.loop.has_ready(), horizon=4.0)
    except Abort as e:
        r.check('C06.no_exception', False, 'base=%s %s: loop blocked: %s' % (base, case, e),
                where=w.blocked_site(), case=case, fp='blocked-' + str(js.get('command') if isinstance(js, dict) else ''))
        d.discard()
        return
    where = 'controller.dispatch'
    if waiting and isinstance(js, dict):
        where = 'commands.%s/waiting' % js.get('command')
        if accepted_quit:
            where += '/stream-closed-before-reply'
    judge(r, case, base, w, req, js, where)
    if not accepted_quit and w.arbiter.ctrl.started:
        pr = w.request('numwatchers')
        r.check('C06.still_serving', pr.reply() is not None and pr.reply().get('status') == 'ok',
                lambda: 'after base=%s %s the daemon no longer answers numwatchers: %r' % (base, case, pr.reply()),
                where='controller', case=case, fp='dead-after-' + _shape(case, js))
    if len(r.samples) < 2:
        r.samples.append({'base': base, 'case': case})
    d.after()


def run_async(r, ci):
    cmd, props = ASYNC_CMDS[ci]
    for fault in FAULTS:
        for waiting in (False, True):
            for base in ('idle', 'stopped'):
                case = {'kind': 'async', 'command': cmd, 'props': props, 'fault': fault, 'waiting': waiting, 'base': base}
                r.cases += 1
                replay_async(r, case)


def replay_async(r, case):
    cmd, props, fault, waiting, base = case['command'], dict(case['props']), case['fault'], case['waiting'], case['base']
    w = World(Chooser(), [])
    from props.common import nth_hook
    hooks = {}
    if fault == 'hook-raise':
        w.armed = False

        def hook(watcher, arbiter, hook_name, **kw):
            if w.armed:
                raise RuntimeError('hook raises')
            return True
        hooks = {'before_spawn': (hook, False), 'after_start': (hook, False), 'before_stop': (hook, False)}
    spec = WSpec('a', numprocesses=2, graceful_timeout=G, warmup_delay=0.1, max_retry=2, behaviours=[slow(0.1)], hooks=hooks)
    w.specs = {'a': spec}
    w.spec_list = [spec, WSpec('b', numprocesses=1, graceful_timeout=G)]
    w.specs['b'] = w.spec_list[1]
    try:
        w.boot()
        w.run(until=lambda x: x.boot_future.done(), horizon=5)
        w.run(horizon=0.3)
        if base == 'stopped':
            w.request('stop', name='a')
            w.run(until=lambda x: x.slot() is None, horizon=3)
        n0 = w.kernel.popen_attempts
        if fault.startswith('popen-runtimeerror@'):
            k = int(fault.split('@')[1])
            w.kernel.popen_fault = lambda kk, attempt, info: RuntimeError('boom') if attempt == n0 + k else None
        elif fault == 'popen-oserror-all':
            w.kernel.popen_fault = lambda kk, attempt, info: OSError(2, 'ENOENT') if attempt > n0 else None
        elif fault == 'hook-raise':
            w.armed = True
        if waiting:
            props['waiting'] = True
        req = w.request(cmd, **props)
        w.run(until=lambda x: x.slot() is None and not x.stopping_processes() and not x.loop.has_ready(), horizon=6.0)
        w.run(horizon=0.5)
        js = {'id': req.mid, 'command': cmd, 'properties': props}
        shape = 'async-%s-%s' % (cmd, 'waiting' if waiting else 'nowait')
        raws = req.raw_replies()
        failed = bool([1 for name, msg in __import__('vt.world', fromlist=['LOGCAP']).LOGCAP.records
                       if 'exception' in msg.lower() or 'boom' in msg])
        r.check('C06.one_reply', len(raws) == 1,
                lambda: '%s: %d replies for a request whose operation %s [fault=%s]' % (
                    json.dumps(case), len(raws), 'failed part-way' if failed else 'ran', fault),
                where='commands.%s/%s' % (cmd, 'waiting-operation-failed' if (waiting and failed and not raws) else
                                          ('waiting' if waiting else 'nowait')),
                case=case, fp=shape + '-' + fault, nontrivial=failed)
        for t, fr in raws[:1]:
            try:
                rep = json.loads(fr[1])
            except Exception:
                rep = None
            r.check('C06.well_formed', isinstance(rep, dict) and rep.get('id') == req.mid and
                    rep.get('status') in ('ok', 'error'), lambda: '%s: reply %r' % (json.dumps(case), fr),
                    where='controller.dispatch', case=case, fp='illformed-' + shape)
            r.outcomes.add(digest([shape, fault, rep.get('status') if rep else None]))
        r.nontrivial.add(digest(case))
        pr = w.request('numwatchers')
        r.check('C06.still_serving', pr.reply() is not None and pr.reply().get('status') == 'ok',
                lambda: '%s: daemon does not answer afterwards' % json.dumps(case), where='controller', case=case,
                fp='dead-' + shape)
    except Abort as e:
        r.check('C06.no_exception', False, '%s: loop blocked %s' % (json.dumps(case), e), where=w.blocked_site(),
                case=case, fp='blocked-async')
    finally:
        w.close()


def run_shard(shard, tier):
    r = EnumResult()
    if shard[0] == 'client':
        return CL.run_client_shard(shard[1], tier)
    kind, base, lo, hi = shard
    if kind == 'async':
        run_async(r, lo)
        return r
    if kind == 'env':
        cases = envelope_cases()[lo:hi]
    elif kind == 'bytes':
        cases = byte_cases()
    else:
        cases = command_cases(kind.split(':', 1)[1])[lo:hi]
    d = Daemon(base)
    try:
        for n, case in enumerate(cases):
            run_case(r, d, case, n)
    finally:
        d.discard()
    return r


def replay_case(case):
    if isinstance(case, dict) and case.get('kind') == 'client' and CL is not None:
        return CL.replay_client_case(case)
    r = EnumResult()
    if case.get('kind') == 'async':
        replay_async(r, case)
    else:
        for base in ([case['base']] if 'base' in case else BASES):
            d = Daemon(base)
            try:
                run_case(r, d, case, 0)
            finally:
                d.discard()
    return [(v['clause'], v['detail'], v['where']) for v in r.violations]

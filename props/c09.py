"""C09 — Published events let a subscriber reconstruct the live process set."""
import signal

from props.common import *      # noqa: F401,F403
from props.common import pattern, G, status_of, rejected_by_after_spawn
from props.hist import run_history, live
from vt.clock import CLOCK
from vt.events import Req, Die
from vt.explorer import Result
from vt.runner import Scenario
from vt.simkernel import wstatus_exit, wstatus_signal, PID_BASE
from vt.world import World, WSpec

ID = 'C09'
KIND = 'explorer'
LEVEL = 'model_checking'
LIVE = {'quick': ['external-kill-then-stop'], 'thorough': ['external-kill-then-stop', 'exit3-respawn', 'incr-decr-restart', 'stubborn-stop']}
GRAPH = {'quick': 2, 'thorough': 3}
BUDGET = {'quick': 900, 'thorough': 10800}
RULE = ('breadth-first search over canonical quiescent states; bursts of <= (1 request + 1 worker death) with the '
        'death placed at every loop-iteration boundary and before every kernel call of the periodic check and of '
        'incr/decr/set/reload/kill/restart; death statuses exit 0/1/255 and signals 1/9/15 (plus a sweep over every '
        'exit status 0..255 and every terminating signal for a single death); the oracle replays the captured PUB '
        'frames as a subscriber would')
ASSUMPTIONS = ['events are observed at the PUB socket send call, in send order (zmq PUB preserves per-publisher order)']

TERM_SIGNALS = [int(s) for s in (signal.SIGHUP, signal.SIGINT, signal.SIGQUIT, signal.SIGILL, signal.SIGABRT,
                                 signal.SIGFPE, signal.SIGKILL, signal.SIGSEGV, signal.SIGPIPE, signal.SIGALRM,
                                 signal.SIGTERM, signal.SIGUSR1, signal.SIGUSR2, signal.SIGBUS, signal.SIGTRAP,
                                 signal.SIGXCPU, signal.SIGXFSZ, signal.SIGVTALRM, signal.SIGPROF, signal.SIGSYS)]


def scenarios(tier):
    out = []
    cfgs = [(1, 'obedient'), (2, 'first-stubborn')] if tier == 'quick' else \
        [(1, 'obedient'), (2, 'obedient'), (2, 'first-stubborn'), (2, 'slow'), (1, 'stubborn')]
    for n0, pat in cfgs:
        out.append(Scenario('hist', n0=n0, pat=pat, tier=tier))
    out.append(Scenario('hist', n0=2, pat='slow', tier=tier, tick=0.3))
    # a check period (0.13 s) that does not divide the 0.1 s polling of kill_process: a worker that ignores the stop signal
    # and dies for another reason is found by the periodic check between two polls of the kill in flight
    out.append(Scenario('hist', n0=2, pat='first-stubborn', tier=tier, tick=0.13))
    # a worker that is still there for an instant after its SIGKILL: the picture must not depend on who collects it
    out.append(Scenario('hist', n0=2, pat='stubborn-lag', tier=tier))
    out.append(Scenario('sweep', n0=1, pat='obedient', tier=tier, nodet=True))
    # the watched worker is the daemon's ONLY child (no bystander watcher): when it has died, waitpid(-1) has no child left
    # to wait for (ECHILD) - a different path through the periodic sweep
    out.append(Scenario('sweep', n0=1, pat='obedient', tier=tier, nodet=True, solo=True))
    out.append(Scenario('hist', n0=1, pat='obedient', tier=tier, solo=True))
    # a watcher reloaded by SIGHUP (send_hup) that also has stop_children: its workers survive a reload, and so must the
    # picture the events give of them
    out.append(Scenario('hist', n0=2, pat='hup-aware', tier=tier, hup=True))
    return out


def plan(tier, gen):
    """(request budget, death budget, deviation bound) of a burst in generation `gen`."""
    if tier == 'quick':
        return {1: (1, 1, 2)}.get(gen, (0, 1, 1))
    return {1: (1, 1, 2), 2: (1, 1, 1)}.get(gen, (1, 0, 1))


def bound(tier, scn, gen=1):
    if scn.name == 'sweep':
        return 1 if gen == 1 else 0
    return plan(tier, gen)[2]


def bounds(tier):
    return {'generations': GRAPH[tier],
            'burst_per_generation(requests,deaths)': {str(g): plan(tier, g) for g in range(1, GRAPH[tier] + 1)},
            'death_statuses': 'exit 0,1; signal 9' + ('' if tier == 'quick' else '; exit 255; signals 1,15'),
            'sweep': 'single death, exit status 0..255 and %d terminating signals' % len(TERM_SIGNALS)}


def statuses(tier):
    st = [wstatus_exit(0), wstatus_exit(1), wstatus_signal(9)]
    if tier != 'quick':
        st += [wstatus_exit(255), wstatus_signal(1), wstatus_signal(15)]
    return tuple(st)


def alphabet(world):
    w = world.watcher('a')
    if w is None:
        return []
    evs = [Req('incr', name='a'), Req('decr', name='a'),
           Req('set', label='set(np=3)', name='a', options={'numprocesses': 3}),
           Req('set', label='set(np=1)', name='a', options={'numprocesses': 1}),
           Req('reload', name='a'), Req('reload', label='reload(sequential)', name='a', sequential=True),
           Req('kill', name='a'), Req('restart', name='a'), Req('stop', name='a'), Req('start', name='a')]
    return evs


def decode(world):
    """(t, watcher, topic, payload) from the captured PUB frames."""
    out = []
    for t, topic, payload in world.events():
        parts = topic.split('.')
        if len(parts) >= 3 and parts[0] == 'watcher':
            out.append((t, parts[1], parts[2], payload or {}))
    return out


def expected_exit_code(wstatus):
    import os
    if os.WIFSIGNALED(wstatus):
        return -os.WTERMSIG(wstatus)
    return os.WEXITSTATUS(wstatus)


def check_events(world, res, win, final=True):
    evs = decode(world)
    k = world.kernel
    ev_lab = [e.label for _, e in win.applied] if win is not None else []
    spawns, reaps, kills = {}, {}, {}
    order = {}
    for i, (t, wname, topic, p) in enumerate(evs):
        if wname != 'a':
            continue
        pid = p.get('process_pid')
        if topic == 'spawn':
            spawns.setdefault(pid, []).append(i)
        elif topic == 'reap':
            reaps.setdefault(pid, []).append((i, p.get('exit_code')))
        elif topic == 'kill':
            kills.setdefault(pid, []).append(i)
    adopted = [p for p in k.spawn_log if p.watcher == 'a']
    rejected = rejected_by_after_spawn(world)
    for p in adopted:
        if p.pid in rejected:
            continue
        n = len(spawns.get(p.pid, []))
        res.check('C09.spawn_once_before_reap', n == 1,
                  lambda: 'pid %d has %d spawn events (after %s)' % (p.pid, n, ev_lab), where='watcher.spawn_process')
        if n and p.pid in reaps:
            res.check('C09.spawn_once_before_reap', spawns[p.pid][0] < reaps[p.pid][0][0],
                      lambda: 'reap event for %d precedes its spawn event' % p.pid, where='watcher.reap_process')
    for pid, lst in reaps.items():
        res.check('C09.reap_at_most_once', len(lst) == 1,
                  lambda: 'pid %d has %d reap events (after %s)' % (pid, len(lst), ev_lab), where='watcher.reap_process')
    # reconstruct
    alive_by_events = set(pid for pid in spawns
                          if pid not in reaps and not any(i > spawns[pid][0] for i in kills.get(pid, [])))
    alive = set(p.pid for p in adopted if p.state == RUNNING)
    res.check('C09.reconstruct', alive_by_events == alive,
              lambda: 'subscriber view %s != live workers %s (after %s)' % (
                  sorted(x - PID_BASE for x in alive_by_events), sorted(x - PID_BASE for x in alive), ev_lab),
              where='watcher.notify_event', nontrivial=bool(ev_lab))
    # deaths by themselves / from outside while the watcher was active
    for (t, kind, *rest) in world.trace:
        if kind != 'die':
            continue
        pid, wst = rest[0], rest[1]
        p = k.procs[pid]
        if p.death_time is None or abs(p.death_time - t) > 1e-9 or p.wstatus != wst:
            continue            # the injected death lost against an earlier one
        ctx = getattr(world, 'death_ctx', {}).get(pid)
        if ctx == 'active-being-killed':
            if reaps.get(pid):
                code = reaps[pid][0][1]
                exp = expected_exit_code(wst)
                res.check('C09.exit_code', code == exp,
                          lambda: 'reap event of %d carries exit_code=%r, wait status %d means %d (the worker died by itself / '
                          'from outside while a kill request was waiting for it; reaped by %s; after %s)'
                          % (pid - PID_BASE, code, wst, exp, p.reaped_by, ev_lab), where='watcher.reap_process/kill-in-flight')
            continue
        if ctx != 'active':
            res.ev('C09.death_not_while_active', True)
            continue
        if not reaps.get(pid) and any(evs[i][0] >= t - 1e-9 for i in kills.get(pid, [])):
            # the supervisor was itself terminating this worker in the very step it died in (it was in the surplus
            # slice / being stopped): supervisor-initiated terminations are reported by kill events, not reap events
            res.ev('C09.death_during_supervisor_kill', True)
            continue
        if not reaps.get(pid):
            site = 'watcher.manage_processes/dead-popped-without-reap'
            res.check('C09.unreported_death', False,
                      'worker %d died by itself/externally (wait status %d) at t=%.3f while its watcher was active; '
                      'no reap event after the next check (after %s)' % (pid - PID_BASE, wst, t, ev_lab), where=site)
        else:
            res.ev('C09.unreported_death', True)
            code = reaps[pid][0][1]
            exp = expected_exit_code(wst)
            site = 'watcher.reap_process'
            if code != exp and p.reaped_by == 'poll':
                site = 'watcher.reap_process/already-polled'
            res.check('C09.exit_code', code == exp,
                      lambda: 'reap event of %d carries exit_code=%r, wait status %d means %d (reaped by %s; after %s)'
                      % (pid - PID_BASE, code, wst, exp, p.reaped_by, ev_lab), where=site)
    # the bystander watcher z: one spawn event, nothing else about its worker
    zp = [p for p in k.spawn_log if p.watcher == 'z']
    zev = [(topic, p.get('process_pid')) for (t, wname, topic, p) in evs if wname == 'z' and topic in ('spawn', 'reap', 'kill')]
    if zp:
        res.check('C09.bystander_events', zev == [('spawn', zp[0].pid)] and len(zp) == 1,
                  lambda: 'events about bystander watcher z: %s (its only worker is %d), after %s' % (zev, zp[0].pid, ev_lab),
                  where='watcher.notify_event', nontrivial=bool(ev_lab))
    # start/stop events agree with status
    last = None
    for (t, wname, topic, p) in evs:
        if wname == 'a' and topic in ('start', 'stop'):
            last = topic
    st = status_of(world, 'a')
    if st in ('active', 'stopped') and last is not None:
        res.check('C09.start_stop_agree', (last == 'start') == (st == 'active'),
                  lambda: 'last start/stop event is %r but status is %r (after %s)' % (last, st, ev_lab),
                  where='watcher._start/_stop', nontrivial=any('stop' in l or 'start' in l for l in ev_lab))


def _world_with_death_ctx(world):
    """Record, for every injected death, whether the watcher was active at that instant."""
    world.death_ctx = {}
    orig = world.die

    def die(pid, wst):
        p = world.kernel.procs[pid]
        w = world.watcher(p.watcher or '')
        if p.state == RUNNING:
            if w is not None and w.status() == 'active' and pid in w.processes:
                # (a worker that a kill request is waiting for is still a worker of an active watcher: its own death is
                # reported with its own status; only the "no reap event at all" clause makes allowance for the kill)
                world.death_ctx[pid] = 'active' if not w.processes[pid].stopping else 'active-being-killed'
            else:
                world.death_ctx[pid] = 'other'
        return orig(pid, wst)
    world.die = die


def run(scn, ch):
    res = Result()
    tier = scn.tier

    def make_world(ch):
        if scn.p.get('hup'):
            from vt.simkernel import Behaviour
            beh = [Behaviour('hup-aware', {1: ('ignore',)})]
            specs = [WSpec('a', numprocesses=scn.n0, graceful_timeout=G, behaviours=beh, send_hup=True, stop_children=True)]
        else:
            specs = [WSpec('a', numprocesses=scn.n0, graceful_timeout=G, behaviours=pattern(scn.pat))]
        if not scn.p.get('solo'):
            specs.append(WSpec('z', numprocesses=1, graceful_timeout=G))
        world = World(ch, specs, check_delay=scn.p.get('tick', 1.0))
        world.deaths_only = ('a',)
        _world_with_death_ctx(world)
        return world

    if scn.name == 'sweep':
        return _run_sweep(scn, ch, res, make_world)

    def budgets(g):
        r, d, _ = plan(tier, g)
        return {'req': r, 'die': d}

    def on_quiescent(world, res, gen, win):
        check_events(world, res, win)

    return run_history(scn, ch, make_world, alphabet, budgets, on_quiescent, res=res, settle_checks=2,
                       statuses=statuses(tier))


def _run_sweep(scn, ch, res, make_world):
    """One worker, one death, every wait status."""
    from props.common import finish
    from vt.world import Abort
    world = make_world(ch)
    try:
        world.boot()
        world.run(until=lambda w: w.boot_future.done(), horizon=5)
        world.settle(1)
        pid = world.kernel.running_workers()[0].pid
        sts = [wstatus_exit(c) for c in range(256)] + [wstatus_signal(s) for s in TERM_SIGNALS]
        evs = [Die(pid, st, tag='w') for st in sts]
        c = ch.choose('L', [e.label for e in evs], first_is_default=False)
        if c > 0:
            evs[c - 1].apply(world)

        class W:
            applied = [('L', evs[c - 1])] if c > 0 else []
        world.settle(2)
        check_events(world, res, W)
        res.outcome = ('sweep', c)
        return finish(world, res)
    except Abort as e:
        return finish(world, res, aborted=str(e))

"""C14 — Hooks gate exactly the transitions they are documented to gate."""
import itertools
import signal

from props.common import *      # noqa: F401,F403
from props.common import pattern, finish, G, status_of, rejected_by_after_spawn
from vt.clock import CLOCK
from vt.explorer import Result, digest
from vt.runner import Scenario
from vt.simkernel import PID_BASE, RUNNING, ZOMBIE
from vt.world import World, WSpec, Abort

ID = 'C14'
KIND = 'explorer'
LEVEL = 'model_checking'
BUDGET = {'quick': 900, 'thorough': 10800}
RULE = ('all 3^4 x 2^4 = 1296 assignments of {true,false,raise} x {ignore flag} to before_start / before_spawn / '
        'after_spawn / after_start, crossed with worker pattern, numprocesses and request (start, restart); all '
        '3^2 x 2^2 assignments to (before_stop, after_stop) and (before_signal, after_signal) crossed with stop / '
        'restart / signal / kill / decr and obedient / stubborn workers; one- and two-hook mixes across phases; each '
        'assignment is one execution of the real daemon; distinct = distinct (assignment, request, pattern)')
ASSUMPTIONS = ['hooks are plain callables passed to Watcher(hooks=...); resolution of dotted names is config territory (C16)']

START4 = ['before_start', 'before_spawn', 'after_spawn', 'after_start']
OUTS = [True, False, 'raise']


def eff(outcome, flag):
    """Documented meaning: an exception counts as false unless the ignore flag is set."""
    if outcome == 'raise':
        return bool(flag)
    return bool(outcome)


def scenarios(tier):
    out = []
    combos = [(('obedient', 2, 'start')), ('stubborn', 1, 'restart')] if tier == 'quick' else \
        [(p, n, r) for p in ('obedient', 'stubborn') for n in (1, 2) for r in ('start', 'restart')]
    for outs in itertools.product(OUTS, repeat=4):
        for flags in itertools.product((False, True), repeat=4):
            if all(o != 'raise' for o in outs) and any(flags):
                # flags only matter for raising hooks: keep one representative
                continue
            for pat, n, rq in combos:
                out.append(Scenario('start4', outs=list(outs), flags=list(flags), pat=pat, n=n, req=rq, nodet=True))
    for pair, reqs in ((('before_stop', 'after_stop'), ('stop', 'restart')),
                       (('before_signal', 'after_signal'), ('signal', 'kill', 'stop', 'decr', 'restart', 'signal-9', 'signal-KILL', 'kill-9'))):
        for outs in itertools.product(OUTS, repeat=2):
            for flags in itertools.product((False, True), repeat=2):
                for rq in reqs:
                    for pat in ('obedient', 'stubborn'):
                        out.append(Scenario('pair', hooks=list(pair), outs=list(outs), flags=list(flags), pat=pat,
                                            req=rq, nodet=True))
    for h1 in START4:
        for o1 in (False, 'raise'):
            for h2 in ('before_stop', 'after_stop', 'before_signal'):
                for o2 in (False, 'raise'):
                    for flags in itertools.product((False, True), repeat=2):
                        for pat in ('obedient', 'stubborn'):
                            out.append(Scenario('mix', hooks=[h1, h2], outs=[o1, o2], flags=list(flags), pat=pat,
                                                req='start', nodet=True))
    # two watchers in one daemon: the ignore-failure flag of one watcher's hook must not leak to the other's
    for h in START4:
        for order in ('lenient-first', 'strict-first'):
            for pat in ('obedient', 'stubborn'):
                out.append(Scenario('two', hook=h, order=order, pat=pat, nodet=True))
    # hooks installed at run time through the set command (dotted names resolved by circus), then start
    for h in START4:
        for o in (False, 'raise'):
            for flag in (False, True):
                out.append(Scenario('runtime', hook=h, out=o, flag=flag, nodet=True))
        # ... followed by a set of the same hook that is REFUSED (the name cannot be imported) and carries the ignore flag:
        # the refusal must leave the installed hook and its flag as they were
        out.append(Scenario('runtime', hook=h, out='raise', flag=False, refused=True, nodet=True))
    return out


def bound(tier, scn):
    return 0


def bounds(tier):
    return {'start_phase_assignments': 1296, 'worker_patterns': ['obedient', 'stubborn'], 'numprocesses': [1, 2],
            'requests': ['start', 'restart', 'stop', 'signal', 'kill', 'decr'], 'graceful_timeout': G,
            'deviations': 0}


def _hook(world, name, outcome):
    def hook(watcher, arbiter, hook_name, **kw):
        if not world.armed:
            return True
        world.hook_calls.append((CLOCK.now, watcher.name, hook_name, outcome, dict(kw)))
        if outcome == 'raise':
            # exceptions come in several shapes: with a message, without any argument (a bare `raise X`, a failed plain
            # assert), with a non-string argument; alternate between them (deterministically, by the number of calls so far)
            k = len(world.hook_calls) % 3
            if k == 0:
                raise RuntimeError('hook %s raises' % hook_name)
            if k == 1:
                raise AssertionError()
            raise KeyError(('hook', hook_name))
        return outcome
    return hook


RUNTIME_LOG = []


def rt_false(watcher, arbiter, hook_name, **kw):
    RUNTIME_LOG.append((watcher.name, hook_name, False))
    return False


def rt_raise(watcher, arbiter, hook_name, **kw):
    RUNTIME_LOG.append((watcher.name, hook_name, 'raise'))
    raise RuntimeError('hook raises')


def _run_runtime(scn, ch, res):
    del RUNTIME_LOG[:]
    world = World(ch, [WSpec('a', numprocesses=1, graceful_timeout=G, autostart=False)])
    try:
        world.boot()
        world.run(until=lambda w: w.boot_future.done(), horizon=5)
        fn = 'props.c14.rt_false' if scn.out is False else 'props.c14.rt_raise'
        rq = world.request('set', name='a', options={'hooks.%s' % scn.hook: '%s,%s' % (fn, 'true' if scn.flag else 'false')})
        res.check('C14.accepted', rq.ok(), lambda: 'set hooks.%s refused: %r' % (scn.hook, rq.reply()), where='commands.set')
        world.run(until=lambda w: w.slot() is None, horizon=2)
        if scn.p.get('refused'):
            rq2 = world.request('set', name='a', options={'hooks.%s' % scn.hook: 'no_such_module_vt.fn,true'})
            res.check('C14.bad_hook_refused', rq2.replied() and not rq2.ok(),
                      lambda: 'set hooks.%s to a name that cannot be imported answered %r' % (scn.hook, rq2.reply()),
                      where='watcher.set_opt/hooks')
            world.run(until=lambda w: w.slot() is None, horizon=2)
        world.request('start', name='a')
        world.run(until=lambda w: w.slot() is None and not w.stopping_processes(), horizon=4 * G + 2.0)
        world.run(horizon=G + 0.2)
        wa = world.watcher('a')
        st = wa.status()
        alive = [p.pid for p in world.procs_of('a') if p.state in (RUNNING, ZOMBIE)]
        expect_abort = not eff(scn.out, scn.flag)
        called = [x for x in RUNTIME_LOG if x[1] == scn.hook]
        res.check('C14.runtime_hook_called', bool(called), lambda: 'hook %s set at run time was never called by the start' % scn.hook,
                  where='watcher.set_opt/hooks')
        if expect_abort:
            res.check('C14.start_aborted', st == 'stopped' and not alive,
                      lambda: 'hook %s=%r (ignore=%s) installed with set: the start must abort, status %r alive %s'
                      % (scn.hook, scn.out, scn.flag, st, alive), where='watcher.set_opt/hooks')
        else:
            res.check('C14.start_not_aborted', st == 'active' and len(alive) == 1,
                      lambda: 'hook %s raises with the ignore flag set through set: the start must go on, status %r alive %s'
                      % (scn.hook, st, alive), where='watcher.set_opt/hooks')
        res.outcome = digest([scn.hook, repr(scn.out), scn.flag, st, len(alive)])
        return finish(world, res)
    except Abort as e:
        return finish(world, res, aborted=str(e))


def _run_two(scn, ch, res):
    world = World(ch, [])
    world.armed = True
    h = scn.hook
    lenient = WSpec('len', numprocesses=1, graceful_timeout=G, behaviours=pattern(scn.pat), autostart=False,
                    hooks={h: (_hook(world, h, 'raise'), True)})
    strict = WSpec('str', numprocesses=1, graceful_timeout=G, behaviours=pattern(scn.pat), autostart=False,
                   hooks={h: (_hook(world, h, 'raise'), False)})
    specs = [lenient, strict] if scn.order == 'lenient-first' else [strict, lenient]
    world.specs = {s.name: s for s in specs}
    world.spec_list = specs
    try:
        world.boot()
        world.run(until=lambda w: w.boot_future.done(), horizon=5)
        for name in (s.name for s in specs):
            world.request('start', name=name)
            world.run(until=lambda w: w.slot() is None and not w.stopping_processes(), horizon=4 * G + 2.0)
        world.run(horizon=G + 0.2)
        st_len, st_str = world.watcher('len').status(), world.watcher('str').status()
        alive_str = [p.pid for p in world.procs_of('str') if p.state in (RUNNING, ZOMBIE)]
        res.check('C14.start_aborted', st_str == 'stopped' and not alive_str,
                  lambda: 'watcher "str": %s raises with the ignore flag OFF, but the start was not aborted (status %r, alive %s); '
                  'another watcher of the daemon has the same hook with the flag ON' % (h, st_str, alive_str),
                  where='watcher.call_hook/ignore-flag-of-another-watcher')
        res.check('C14.start_not_aborted', st_len == 'active',
                  lambda: 'watcher "len": %s raises with the ignore flag ON, start must go on; status %r' % (h, st_len),
                  where='watcher.call_hook')
        res.outcome = digest([st_len, st_str, len(alive_str)])
        return finish(world, res)
    except Abort as e:
        return finish(world, res, aborted=str(e))


def run(scn, ch):
    res = Result()
    if scn.name == 'two':
        return _run_two(scn, ch, res)
    if scn.name == 'runtime':
        return _run_runtime(scn, ch, res)
    if scn.name == 'start4':
        names = START4
    else:
        names = scn.hooks
    world = World(ch, [])
    world.armed = False
    hooks = {h: (_hook(world, h, o), f) for h, o, f in zip(names, scn.outs, scn.flags)}
    n = scn.p.get('n', 2)
    spec = WSpec('a', numprocesses=n, graceful_timeout=G, behaviours=pattern(scn.pat), hooks=hooks,
                 autostart=(scn.req != 'start'))
    world.specs = {'a': spec}
    world.spec_list = [spec]
    effs = {h: eff(o, f) for h, o, f in zip(names, scn.outs, scn.flags)}
    try:
        world.boot()
        world.run(until=lambda w: w.boot_future.done(), horizon=5)
        world.settle(1)
        wa = world.watcher('a')
        world.armed = True
        n_ev0 = len(world.events())
        before = [p.pid for p in world.procs_of('a', [RUNNING])]
        sig_before = len(world.kernel.signal_log)
        rq = scn.req
        if rq == 'start':
            req = world.request('start', name='a')
        elif rq == 'restart':
            req = world.request('restart', name='a')
        elif rq == 'stop':
            req = world.request('stop', name='a')
        elif rq == 'decr':
            req = world.request('decr', name='a')
        elif rq == 'kill':
            req = world.request('kill', name='a')
        elif rq == 'signal':
            req = world.request('signal', name='a', signum=int(signal.SIGUSR1))
        elif rq == 'signal-9':
            # SIGKILL asked for by a request (a plain JSON number / a name), not by the daemon's own escalation
            req = world.request('signal', name='a', signum=9)
        elif rq == 'signal-KILL':
            req = world.request('signal', name='a', signum='kill')
        elif rq == 'kill-9':
            req = world.request('kill', name='a', signum=9, graceful_timeout=5.0)
        res.check('C14.accepted', req.ok(), lambda: '%s refused: %r' % (rq, req.reply()), where='controller')
        why = world.run(until=lambda w: w.slot() is None and not w.stopping_processes(), horizon=4 * G + 2.0)
        res.check('C14.completes', why == 'until', lambda: '%s did not complete (slot=%r)' % (rq, world.slot()),
                  where='watcher')
        world.run(horizon=G + 0.2)
        world.armed = False
        st = wa.status()
        procs = world.procs_of('a')
        alive = [p.pid for p in procs if p.state in (RUNNING, ZOMBIE)]
        if rq in ('start', 'restart'):
            start_hooks = [h for h in names if h in START4]
            expect_abort = not all(effs[h] for h in start_hooks)
            rej = rejected_by_after_spawn(world)
            if expect_abort:
                first_bad = [h for h in START4 if h in effs and not effs[h]][0]
                res.check('C14.start_aborted', st == 'stopped',
                          lambda: '%s=%r(ignore=%s) must abort the start but status is %r'
                          % (first_bad, dict(zip(names, scn.outs))[first_bad], dict(zip(names, scn.flags))[first_bad], st),
                          where='watcher._start/' + first_bad)
                res.check('C14.start_aborted_none_alive', not alive,
                          lambda: 'start aborted by %s but workers %s are still running/zombie'
                          % (first_bad, [x - PID_BASE for x in alive]),
                          where='spawn_process/after_spawn-rejected' if set(alive) <= rej and alive else 'watcher._start/' + first_bad)
            else:
                running = [p.pid for p in procs if p.state == RUNNING and p.pid not in before]
                res.check('C14.start_not_aborted', st == 'active' and len(running) == n,
                          lambda: 'no hook vetoes the start (effective outcomes %s) but status=%r running=%d/%d'
                          % (effs, st, len(running), n), where='watcher._start')
        if rq in ('stop',) or (rq == 'restart' and False):
            res.check('C14.stop_never_blocked', st == 'stopped' and not alive,
                      lambda: 'stop with hooks %s: status %r, alive %s' % (dict(zip(names, scn.outs)), st, alive),
                      where='watcher._stop')
        if rq == 'restart' and scn.name == 'pair':
            old_alive = [p for p in before if world.kernel.procs[p].state in (RUNNING, ZOMBIE)]
            res.check('C14.stop_never_blocked', not old_alive and st == 'active',
                      lambda: 'restart with hooks %s: old workers alive %s, status %r' % (dict(zip(names, scn.outs)), old_alive, st),
                      where='watcher._restart')
        if 'before_signal' in names and scn.name == 'pair':
            vetoed = not effs['before_signal']
            KILL = int(signal.SIGKILL)
            sent = [(pid, s) for (t, pid, s, via) in world.kernel.signal_log[sig_before:] if via == 'send_signal']
            nonkill = [(pid - PID_BASE, s) for pid, s in sent if s != KILL]
            calls = [c for c in world.hook_calls if c[2] == 'before_signal' and c[4].get('signum') != KILL]
            if vetoed:
                o, f = dict(zip(names, scn.outs))['before_signal'], dict(zip(names, scn.flags))['before_signal']
                res.check('C14.signal_vetoed', not nonkill,
                          lambda: 'before_signal=%r(ignore=%s) counts as false but signals %s were delivered' % (o, f, nonkill),
                          where='watcher.send_signal/raise-treated-as-true' if o == 'raise' else 'watcher.send_signal',
                          nontrivial=bool(calls))
            else:
                res.check('C14.signal_passes', len(nonkill) == len(calls),
                          lambda: 'before_signal allows the signal but %d of %d were delivered' % (len(nonkill), len(calls)),
                          where='watcher.send_signal', nontrivial=bool(calls))
            if rq in ('signal-9', 'signal-KILL', 'kill-9'):
                gone = all(world.kernel.procs[p].state != RUNNING for p in before)
                res.check('C14.sigkill_always', gone and any(s == KILL for _, s in sent),
                          lambda: 'SIGKILL requested with %s and before_signal=%r: workers %s %s, signals delivered %s'
                          % (rq, dict(zip(names, scn.outs))['before_signal'], [p - PID_BASE for p in before],
                             'gone' if gone else 'still running', sent), where='watcher.send_signal/requested-sigkill')
            if scn.pat == 'stubborn' and rq in ('stop', 'kill', 'decr', 'restart'):
                killed = [pid for pid, s in sent if s == KILL]
                targets = before if rq != 'decr' else sorted(set(pid for pid, s in sent))[:1] or before[:1]
                res.check('C14.sigkill_always', all(world.kernel.procs[p].state != RUNNING for p in targets) and bool(killed),
                          lambda: 'stubborn workers %s not SIGKILLed although the grace period passed (%s)'
                          % ([p - PID_BASE for p in targets], sent), where='watcher.send_signal')
        # one event per hook call
        evs = world.events()[n_ev0:]
        per = {}
        for t, topic, p in evs:
            parts = topic.split('.')
            if parts[-1] in ('hook_success', 'hook_failure') and p:
                per.setdefault(p.get('name'), [0, 0])[0 if parts[-1] == 'hook_success' else 1] += 1
        calls = {}
        for c in world.hook_calls:
            calls.setdefault(c[2], [0, 0])[1 if c[3] == 'raise' else 0] += 1
        for h in names:
            res.check('C14.one_event_per_call', per.get(h, [0, 0]) == calls.get(h, [0, 0]),
                      lambda: 'hook %s: calls (ok, raised)=%s but events (hook_success, hook_failure)=%s'
                      % (h, calls.get(h, [0, 0]), per.get(h, [0, 0])), where='watcher.call_hook',
                      nontrivial=bool(calls.get(h)))
        res.outcome = digest([st, len(alive), sorted(per.items()), [(p.state) for p in procs]])
        return finish(world, res)
    except Abort as e:
        res.check('C14.completes', False, 'aborted: %s' % e, where=world.blocked_site())
        return finish(world, res, aborted=str(e))

"""C16 -- configuration files mean what the documentation says.

Bounded-exhaustive enumeration of ini files from a grammar; every file is read by the real
circus (`circus.config.get_config`, then `Watcher.load_from_config` / `CircusSocket.load_from_config`
on the dictionaries it returns) and by an independent reader written from
docs/source/for-ops/configuration.rst (vt/refmodels/inisem.py).  Only what the documentation
defines is compared; inputs the documentation gives no meaning to (`inisem.Undefined`) are never
generated on purpose and are skipped if they arise from a combination.

Families of cases (see `bounds`):
  E  environment layering: [env], <=3 [env:PATTERN] sections in every order, copy_env, layouts
  O  each documented watcher option in {absent, typical, edge}, one and two (thorough: three) at a time
  R  references $(circus.env.X) / ((circus.env.X)) in every kind of option, one and two at a time
  S  [circus] options, one and two at a time (socket option typing/defaults are outside the property)
"""
import copy
import hashlib
import importlib
import itertools
import json
import logging
import os
import shutil
import sys
import tempfile
import traceback

from vt.main import EnumResult
from vt.refmodels import inisem as REF

ID = 'C16'
KIND = 'enum'
LEVEL = 'exploration'
TECHNIQUE = ('bounded-exhaustive input enumeration against a reference model (small-scope model checking '
             'of a sequential component)')
RULE = ('ini files are generated from a grammar, exhaustively inside the bounds: family E = every ordered '
        'selection of <=3 distinct [env:PATTERN] headers from {aw, b, "aw,b", a*, *, zz} x 7 section layouts '
        '(two of them spread over an included file) x [env] present/absent x copy_env per watcher x 1-2 '
        'watchers x 2 content modes; family O = every documented watcher option slot in {absent, typical, '
        'edge}, all singles and pairs (thorough: triples) on either watcher; family R = both reference '
        'syntaxes x 4 spellings x 3 embeddings x 8 definition sites x every target option kind, singles and '
        'pairs of targets; family S = [circus] option slots, singles and pairs (in [socket:*] and [plugin:*] sections only references are compared). A case is '
        'non-trivial when the documentation defines its meaning (the reference reader does not raise '
        'Undefined); cases are distinct by file text; an outcome is the digest of everything observed '
        '(typed option values, worker environments, socket/plugin/circus values).')
ASSUMPTIONS = [
    'os.environ is exactly {C16_HOME, C16_PORT, C16_N} while a file is read (saved and restored); family R adds '
    'the referenced variable x<k>_var itself when its definition site includes os.environ',
    'syntax limited to what the documentation shows: "name = value" lines, one value per line, no '
    'inline comments, no duplicate sections or options, option names spelled as documented',
    'booleans spelled True/False/true/false as in the documentation; other spellings are not compared',
    'bash-style $NAME substitution in [env] values only for upper-case names of os.environ (and one unset name)',
    'meaning of an option = the attribute of the Watcher / CircusSocket built from the dictionary get_config '
    'returns (what the daemon will use), not the spawn itself (C13 covers argv/env at spawn time)',
    'at most one included file; its sections never collide with sections of the main file',
]

W1, W2 = 'aw', 'b'
ENVIRON = {'C16_HOME': '/home/c16', 'C16_PORT': '8123', 'C16_N': '2'}
PATTERNS = ['aw', 'b', 'aw,b', 'a*', '*', 'zz']
SCR = '@SCRATCH@'
VENVS = ['venv', 'venv2']
PYVERS = ['%d.%d' % sys.version_info[:2], '3.3', '2.7']


def bounds(tier):
    return {
        'watchers': '1-2 ([watcher:aw], [watcher:b])',
        'env_pattern_sections': '<=3 distinct headers from %r, every order' % PATTERNS,
        'layouts': LAYOUTS,
        'env_content_modes': 'both for every layout' if tier == 'thorough' else 'mode 1 for every layout, mode 0 for layouts 0 and 2',
        'os_environ': sorted(ENVIRON),
        'option_slots': len(SLOTS),
        'options_at_a_time': 2 if tier == 'quick' else 3,
        'option_target_watcher': [W1] if tier == 'quick' else [W1, W2],
        'reference_targets': [t[0] for t in TARGETS],
        'reference_forms': len(FORMS), 'reference_embeddings': len(EMBED), 'definition_sites': len(SITES),
        'reference_targets_at_a_time': 2,
        'circus_slots': len(CS_SLOTS), 'circus_slots_at_a_time': 2,
        'scratch': 'tempfile.mkdtemp() per shard, removed in a finally',
    }


# ---------------------------------------------------------------------------------------------
# rendering

def render(sections):
    out = []
    for header, items in sections:
        out.append('[%s]' % header)
        for k, v in items:
            out.append('%s = %s' % (k, v))
        out.append('')
    return '\n'.join(out)


def mkcase(family, shape, main, inc=None, incname='inc.ini'):
    files = {'circus.ini': render(main)}
    if inc:
        files[incname] = render(inc)
    return {'family': family, 'shape': shape, 'files': files}


SOCKET = ('socket:web', [('host', '127.0.0.1'), ('port', '$(circus.env.c16_port)')])
PLUGIN = ('plugin:p', [('use', 'circus.plugins.statsd.StatsdEmitter'),
                       ('parameter1', '((circus.env.C16_HOME))/p'), ('priority', '3')])


# ---------------------------------------------------------------------------------------------
# family E: environment layering

LAYOUTS = ['C Wa Wb G P S L', 'P G Wa Wb S L C', 'G P0 Wa P1 Wb P2 S L', 'S L P Wb Wa G', 'Wa P Wb G',
           'inc:C Wa G P|Wb S L', 'glob:C Wa Wb G|P S']


def e_cases(layout, mode, genv, nw):
    copy_opts = [(), ('true',)] if nw == 1 else [(), ('true',), ('', 'True'), ('True', 'true')]
    seqs = [()]
    for k in (1, 2, 3):
        seqs += list(itertools.permutations(PATTERNS, k))
    for pats in seqs:
        for cp in copy_opts:
            yield e_case(layout, mode, genv, nw, pats, cp)


def e_case(layout, mode, genv, nw, pats, cp):
    cp = list(cp) + ['', '']
    blocks = {}
    for idx, name in enumerate([W1, W2][:nw]):
        items = [('cmd', '/bin/%s ((CIRCUS.ENV.c16_n))' % name)]
        if genv:
            items.append(('seen_v', 'v=$(circus.env.v)'))
        if cp[idx]:
            items.append(('copy_env', cp[idx]))
        blocks['W' + 'ab'[idx]] = [('watcher:' + name, items)]
    if genv:
        items = [('V', 'g'), ('G', 'g_only'), ('C16_N', '3')]
        if mode:
            items.append(('HOMEBIN', '$C16_HOME/bin'))
        blocks['G'] = [('env', items)]
    ps = []
    for i, p in enumerate(pats):
        items = [('V', 'p%d' % i), ('U%d' % i, 'p%d_u' % i)]
        if mode:
            items += [('G', 'p%d_g' % i), ('C16_PORT', 'p%d_90' % i), ('PX%d' % i, 'p%d_x$C16_PORT:$C16_NOPE.' % i)]
        ps.append(('env:' + p, items))
        blocks['P%d' % i] = [ps[-1]]
    blocks['P'] = ps
    blocks['S'] = [SOCKET]
    blocks['L'] = [PLUGIN]
    spec = LAYOUTS[layout]
    incname = 'inc.ini'
    circus_items = [('check_delay', '3')]
    if spec.startswith('inc:'):
        spec = spec[4:]
        circus_items.append(('include', 'inc.ini'))
    elif spec.startswith('glob:'):
        spec = spec[5:]
        incname = 'x.more.ini'
        circus_items.append(('include', '*.more.ini'))
    blocks['C'] = [('circus', circus_items)]
    parts = spec.split('|')
    files = []
    for part in parts:
        secs = []
        for b in part.split():
            secs += blocks.get(b, [])
        files.append(secs)
    shape = {'layout': LAYOUTS[layout], 'mode': mode, 'env': genv, 'watchers': nw, 'patterns': list(pats),
             'copy_env': cp[:nw]}
    return mkcase('E', shape, files[0], files[1] if len(files) > 1 else None, incname)


# ---------------------------------------------------------------------------------------------
# family O: documented watcher options, {absent, typical, edge}

def _b(name, default):
    if default:
        return (name, [(name, 'False')], [(name, 'true')])
    return (name, [(name, 'True')], [(name, 'false')])


# (slot name, typical lines, edge lines); a line whose key is already set by another slot is dropped
SLOTS = [
    _b('shell', False), _b('copy_env', False), _b('send_hup', False), _b('stop_children', False),
    _b('singleton', False), _b('use_sockets', False), _b('close_child_stdout', False),
    _b('close_child_stderr', False), _b('on_demand', False),
    ('copy_path', [('copy_path', 'True'), ('copy_env', 'True')], [('copy_path', 'False')]),
    _b('autostart', True), _b('respawn', True), _b('close_child_stdin', True),
    ('numprocesses', [('numprocesses', '3')], [('numprocesses', '0')]),
    ('warmup_delay', [('warmup_delay', '2')], [('warmup_delay', '0')]),
    ('max_retry', [('max_retry', '3')], [('max_retry', '-1')]),
    ('graceful_timeout', [('graceful_timeout', '10')], [('graceful_timeout', '0.5')]),
    ('priority', [('priority', '7')], [('priority', '-2')]),
    ('max_age', [('max_age', '60')], [('max_age', '1')]),
    ('max_age_variance', [('max_age_variance', '5')], [('max_age_variance', '0')]),
    ('stop_signal', [('stop_signal', 'SIGQUIT')], [('stop_signal', 'int')]),
    ('stop_signal_num', [('stop_signal', '3')], [('stop_signal', 'Hup')]),
    ('cmd', [('cmd', '/usr/bin/env python -u')], [('cmd', 'prog --x=1 "a b"')]),
    ('args', [('args', '-u myprogram.py $(circus.wid)')], [('args', '--fd $(circus.sockets.web) --k=v')]),
    ('shell_args', [('shell_args', '-c')], [('shell_args', '-l -c')]),
    ('working_dir', [('working_dir', SCR)], [('working_dir', '/')]),
    ('uid', [('uid', '1000')], [('uid', 'nobody')]),
    ('gid', [('gid', '1000')], [('gid', 'nogroup')]),
    ('stdin_socket', [('stdin_socket', 'web')], [('stdin_socket', 'other')]),
    ('virtualenv', [('virtualenv', SCR + '/venv'), ('copy_env', 'True')],
     [('virtualenv', SCR + '/venv2'), ('copy_env', 'True')]),
    ('virtualenv_py_ver', [('virtualenv_py_ver', '3.3'), ('virtualenv', SCR + '/venv'), ('copy_env', 'True')],
     [('virtualenv_py_ver', '2.7'), ('virtualenv', SCR + '/venv'), ('copy_env', 'True')]),
    ('rlimit_nofile', [('rlimit_nofile', '500')], [('rlimit_nofile', '')]),
    ('rlimit_case', [('rlimit_CORE', '0')], [('rlimit_Nproc', '100')]),
    ('stdout_stream', [('stdout_stream.class', 'StdoutStream')],
     [('stdout_stream.class', 'FileStream'), ('stdout_stream.filename', SCR + '/out.log'),
      ('stdout_stream.max_bytes', '1024'), ('stdout_stream.backup_count', '2')]),
    ('stderr_stream', [('stderr_stream.class', 'QueueStream')],
     [('stderr_stream.class', 'FancyStdoutStream'), ('stderr_stream.color', 'green')]),
    ('hooks.before_start', [('hooks.before_start', 'os.getcwd')], [('hooks.before_start', 'os.getpid,true')]),
    ('hooks.after_spawn', [('hooks.after_spawn', 'os.getppid, false')], [('hooks.after_spawn', 'os.getpid,True')]),
    ('free', [('my_option', 'some value')], [('x_opt', 'a=b:c 100%')]),
]
SLOT_IDX = dict((s[0], i) for i, s in enumerate(SLOTS))


def o_case(choice, target=W1):
    """choice: list of (slot index, 1=typical | 2=edge), in file order."""
    lines, seen = [], set()
    # explicit lines first pass: keys set by a chosen slot under its own name win over companions
    own = set()
    for si, kind in choice:
        own.add(SLOTS[si][kind][0][0])
    for si, kind in choice:
        for n, (k, v) in enumerate(SLOTS[si][kind]):
            if k in seen or (n > 0 and k in own):
                continue
            seen.add(k)
            lines.append((k, v))
    if 'cmd' not in seen:
        lines.insert(0, ('cmd', '/bin/prog-' + target))
    other = W2 if target == W1 else W1
    main = [('watcher:' + W1, lines if target == W1 else [('cmd', '/bin/prog-' + other)]),
            ('watcher:' + W2, lines if target == W2 else [('cmd', '/bin/prog-' + other)]),
            ('env', [('G', 'g_only')]), SOCKET]
    shape = {'slots': ['%s/%s' % (SLOTS[si][0], 'typical' if kind == 1 else 'edge') for si, kind in choice],
             'target': target}
    return mkcase('O', shape, main)


def o_cases(first, arity, target):
    """all choices whose lowest slot index is `first`."""
    n = len(SLOTS)
    for rest in itertools.combinations(range(first + 1, n), arity - 1):
        idxs = (first,) + rest
        if len(set(SLOTS[i][k][0][0] for i in idxs for k in (1,))) < len(idxs):
            continue        # two slots writing the same option (stop_signal / stop_signal_num)
        for kinds in itertools.product((1, 2), repeat=arity):
            yield o_case(list(zip(idxs, kinds)), target)


# ---------------------------------------------------------------------------------------------
# family R: references

# the two documented syntaxes x spellings ("The replacement is case insensitive.")
FORMS = [('$(circus.env.%s)', 'lower'), ('$(circus.env.%s)', 'upper'), ('$(CIRCUS.ENV.%s)', 'upper'),
         ('$(Circus.Env.%s)', 'lower'), ('((circus.env.%s))', 'lower'), ('((circus.env.%s))', 'upper'),
         ('((CIRCUS.ENV.%s))', 'lower'), ('((Circus.eNv.%s))', 'upper')]
EMBED = ['%s', 'pre-%s-post', '%s%s']
# where the referenced variable is defined (o = os.environ, g = [env], a = [env:aw], s = [env:*] before [env:aw])
SITES = ['o', 'g', 'a', 'og', 'ga', 'oa', 'oga', 'gsa']
# kind of value the target needs -> value per definition site
VALUES = {
    'str': {'o': 'os_val', 'g': 'env_val', 'a': 'aw_val', 's': 'star_val'},
    'int': {'o': '2', 'g': '3', 'a': '4', 's': '5'},
    'sig': {'o': 'INT', 'g': 'QUIT', 'a': 'HUP', 's': 'USR1'},
    'hook': {'o': 'os.getcwd', 'g': 'os.getpid', 'a': 'os.getppid', 's': 'os.getuid'},
    'bool': {'o': 'True', 'g': 'true', 'a': 'True', 's': 'true'},
    'addr': {'o': '127.0.0.1', 'g': '127.0.0.2', 'a': '127.0.0.3', 's': '127.0.0.4'},
    # a variable that is defined and empty is defined: a reference to it expands to nothing
    'empty': {'o': '', 'g': '', 'a': '', 's': ''},
}
# (target name, section, option, value kind, embeddings allowed)
TARGETS = [
    ('cmd', 'watcher', 'cmd', 'str', 3), ('args', 'watcher', 'args', 'str', 3),
    ('free', 'watcher', 'baz', 'str', 3), ('working_dir', 'watcher', 'working_dir', 'str', 3),
    ('shell_args', 'watcher', 'shell_args', 'str', 3),
    ('stdout_stream.filename', 'watcher', 'stdout_stream.filename', 'str', 3),
    ('numprocesses', 'watcher', 'numprocesses', 'int', 1), ('max_age', 'watcher', 'max_age', 'int', 1),
    ('graceful_timeout', 'watcher', 'graceful_timeout', 'int', 1),
    ('shell', 'watcher', 'shell', 'bool', 1),
    ('stop_signal', 'watcher', 'stop_signal', 'sig', 1),
    ('rlimit_nofile', 'watcher', 'rlimit_nofile', 'int', 1),
    ('hooks.before_start', 'watcher', 'hooks.before_start', 'hook', 1),
    ('env_value', 'env', 'Y', 'str', 3), ('env_pattern_value', 'env:aw', 'Y', 'str', 3),
    ('socket_port', 'socket', 'port', 'int', 1), ('socket_host', 'socket', 'host', 'addr', 1),
    ('plugin_param', 'plugin', 'parameter1', 'str', 3),
    ('circus_endpoint', 'circus', 'endpoint', 'str', 3), ('circus_check_delay', 'circus', 'check_delay', 'int', 1),
    ('args_empty', 'watcher', 'args', 'empty', 3), ('free_empty', 'watcher', 'qux', 'empty', 3),
]
TARGET_IDX = dict((t[0], i) for i, t in enumerate(TARGETS))


def _sites_for(target):
    sec = target[1]
    if sec == 'watcher':
        return SITES
    if sec == 'env':
        return ['o']                       # a reference inside [env] to another [env] entry: not defined
    if sec == 'env:aw':
        return ['o', 'g', 'og']
    return ['o', 'g', 'og']                # socket / plugin / circus: no env:NAME applies


def r_case(uses):
    """uses: list of (target index, form index, embedding index, site)."""
    watcher = [('cmd', '/bin/prog-aw')]
    secs = {'env': [], 'env:*': [], 'env:aw': [], 'socket': [('host', '127.0.0.1')],
            'plugin': [('use', 'circus.plugins.statsd.StatsdEmitter')], 'circus': []}
    environ_extra = {}
    shape = []
    for n, (ti, fi, ei, site) in enumerate(uses):
        tname, sec, opt, vkind, _ = TARGETS[ti]
        fmt, spelling = FORMS[fi]
        var = 'x%d_var' % n
        defname = var.upper() if (n + fi) % 2 else var      # the definition's own spelling varies too
        refname = var.upper() if spelling == 'upper' else var
        ref = fmt % refname
        emb = EMBED[ei]
        text = emb % ((ref,) * emb.count('%s'))
        if tname == 'circus_endpoint':
            text = 'tcp://127.0.0.1:' + text if ei == 0 else 'ipc://' + text
        if tname == 'stdout_stream.filename':
            text = SCR + '/' + text
            watcher.append(('stdout_stream.class', 'FileStream'))
        vals = VALUES[vkind]
        for ch in site:
            if ch == 'o':
                environ_extra[defname] = vals['o']
            else:
                secs[{'g': 'env', 'a': 'env:aw', 's': 'env:*'}[ch]].append((defname, vals[ch]))
        if sec == 'watcher':
            if opt == 'cmd':
                watcher[0] = ('cmd', text)
            else:
                watcher.append((opt, text))
        else:
            key = opt if sec != 'env:aw' and sec != 'env' else '%s%d' % (opt, n)
            items = secs[sec]
            if sec == 'socket' and key == 'host':
                items[:] = [kv for kv in items if kv[0] != 'host']
            items.append((key, text))
        shape.append({'target': tname, 'form': fmt % 'X', 'spelling': spelling, 'embed': emb, 'site': site})
    main = [('watcher:' + W1, watcher), ('watcher:' + W2, [('cmd', '/bin/prog-b')])]
    if secs['circus']:
        main.insert(0, ('circus', secs['circus']))
    if secs['env']:
        main.append(('env', secs['env']))
    if secs['env:*']:
        main.append(('env:*', secs['env:*']))
    if secs['env:aw']:
        main.append(('env:aw', secs['env:aw']))
    main.append(('socket:web', secs['socket']))
    main.append(('plugin:p', secs['plugin']))
    case = mkcase('R', {'refs': shape}, main)
    case['environ_extra'] = environ_extra
    return case


def r_single_cases(ti, site):
    t = TARGETS[ti]
    for fi in range(len(FORMS)):
        for ei in range(t[4]):
            yield r_case([(ti, fi, ei, site)])


def r_pair_cases(ti):
    """target ti with every later target; reduced: both syntaxes (forms 0 and 5), whole-value embedding."""
    for tj in range(ti + 1, len(TARGETS)):
        if TARGETS[tj][2] == TARGETS[ti][2] and TARGETS[tj][1] == TARGETS[ti][1]:
            continue
        for si in _sites_for(TARGETS[ti]):
            for sj in _sites_for(TARGETS[tj]):
                for fi, fj in ((0, 5), (5, 0)):
                    yield r_case([(ti, fi, 0, si), (tj, fj, 0, sj)])


# ---------------------------------------------------------------------------------------------
# family S: [circus] and [socket:NAME] options

CS_SLOTS = [
    ('circus', 'endpoint', [('endpoint', 'tcp://127.0.0.1:7555')], [('endpoint', 'ipc:///tmp/c16.sock')]),
    ('circus', 'pubsub_endpoint', [('pubsub_endpoint', 'tcp://127.0.0.1:7556')], [('pubsub_endpoint', 'ipc:///tmp/c16p.sock')]),
    ('circus', 'stats_endpoint', [('stats_endpoint', 'tcp://127.0.0.1:7557'), ('statsd', 'True')],
     [('stats_endpoint', 'ipc:///tmp/c16s.sock'), ('statsd', 'true')]),
    ('circus', 'statsd', [('statsd', 'True')], [('statsd', 'false')]),
    ('circus', 'endpoint_owner', [('endpoint_owner', 'nobody')], [('endpoint_owner', 'root')]),
    ('circus', 'check_delay', [('check_delay', '10')], [('check_delay', '0.5')]),
    ('circus', 'warmup_delay', [('warmup_delay', '2')], [('warmup_delay', '0')]),
    ('circus', 'httpd_host', [('httpd_host', '0.0.0.0')], [('httpd_host', 'localhost')]),
    ('circus', 'httpd_port', [('httpd_port', '9090')], [('httpd_port', '80')]),
    ('circus', 'debug', [('debug', 'True')], [('debug', 'false')]),
    ('circus', 'debug_gc', [('debug_gc', 'True')], [('debug_gc', 'false')]),
    ('circus', 'pidfile', [('pidfile', SCR + '/circus.pid')], [('pidfile', 'circus.pid')]),
    ('circus', 'umask', [('umask', '002')], [('umask', '022')]),
    ('circus', 'loglevel', [('loglevel', 'DEBUG')], [('loglevel', 'info')]),
    ('circus', 'logoutput', [('logoutput', '-')], [('logoutput', 'syslog://localhost:514?user')]),
    ('circus', 'loggerconfig', [('loggerconfig', 'default')], [('loggerconfig', SCR + '/log.yaml')]),
]


def s_case(choice):
    secs = {'circus': [], 'socket': []}
    seen = set()
    own = set((CS_SLOTS[si][0], CS_SLOTS[si][1]) for si, kind in choice)
    for si, kind in choice:
        sec = CS_SLOTS[si][0]
        for n, (k, v) in enumerate(CS_SLOTS[si][1 + kind]):
            if (sec, k) in seen or (n > 0 and (sec, k) in own):
                continue
            seen.add((sec, k))
            secs[sec].append((k, v))
    main = []
    if secs['circus']:
        main.append(('circus', secs['circus']))
    main.append(('watcher:' + W1, [('cmd', '/bin/prog-aw')]))
    main.append(('socket:web', [('host', '127.0.0.1')]))
    shape = {'slots': ['%s.%s/%s' % (CS_SLOTS[si][0], CS_SLOTS[si][1], 'typical' if kind == 1 else 'edge')
                       for si, kind in choice]}
    return mkcase('S', shape, main)


def s_cases(first, arity):
    n = len(CS_SLOTS)
    if first < 0:
        yield s_case([])
        return
    for rest in itertools.combinations(range(first + 1, n), arity - 1):
        idxs = (first,) + rest
        for kinds in itertools.product((1, 2), repeat=arity):
            yield s_case(list(zip(idxs, kinds)))


# ---------------------------------------------------------------------------------------------
# shards

def shards(tier):
    out = []
    for layout in range(len(LAYOUTS)):
        for mode in (0, 1):
            if tier == 'quick' and mode == 0 and layout not in (0, 2):
                continue
            for genv in (False, True):
                for nw in (1, 2):
                    out.append(('E', layout, mode, genv, nw))
    n = len(SLOTS)
    targets = [W1] if tier == 'quick' else [W1, W2]
    for target in targets:
        out.append(('O', -1, 1, target, 0))
        for first in range(n):
            out.append(('O', first, 2, target, 0))
    if tier == 'thorough':
        for first in range(n):
            for part in range(4):
                out.append(('O', first, 3, W1, part))
    for ti, t in enumerate(TARGETS):
        for site in _sites_for(t):
            out.append(('R1', ti, site))
        out.append(('R2', ti))
    out.append(('S', -1, 1))
    for first in range(len(CS_SLOTS)):
        out.append(('S', first, 2))
    return out


def cases_of(shard):
    kind = shard[0]
    if kind == 'E':
        return e_cases(*shard[1:])
    if kind == 'O':
        _, first, arity, target, part = shard
        if first < 0:
            def singles():
                yield o_case([], target)
                for si in range(len(SLOTS)):
                    for k in (1, 2):
                        yield o_case([(si, k)], target)
            return singles()
        if arity == 3:
            return (c for i, c in enumerate(o_cases(first, 3, target)) if i % 4 == part)
        return o_cases(first, arity, target)
    if kind == 'R1':
        return r_single_cases(shard[1], shard[2])
    if kind == 'R2':
        return r_pair_cases(shard[1])
    if kind == 'S':
        _, first, arity = shard
        if first < 0:
            def singles():
                yield s_case([])
                for si in range(len(CS_SLOTS)):
                    for k in (1, 2):
                        yield s_case([(si, k)])
            return singles()
        return s_cases(first, arity)
    raise ValueError(shard)


# ---------------------------------------------------------------------------------------------
# running the real code

class Scratch(object):
    """Scratch directory outside /repo and /verif + pinned os.environ; everything restored on exit."""

    def __enter__(self):
        self.dir = tempfile.mkdtemp(prefix='c16-')
        self.saved_env = dict(os.environ)
        self.saved_path = list(sys.path)
        self.saved_cwd = os.getcwd()
        self.logger = logging.getLogger('circus')
        self.saved_level = self.logger.level
        self.logger.setLevel(logging.CRITICAL + 1)
        for v in VENVS:
            for pv in PYVERS:
                os.makedirs(os.path.join(self.dir, v, 'lib', 'python' + pv, 'site-packages'))
        self.work = os.path.join(self.dir, 'w')
        os.makedirs(self.work)
        self.pinned = False
        return self

    def pin(self, extra=None):
        """os.environ = exactly ENVIRON (+ the case's own definitions)."""
        if not self.pinned:
            os.environ.clear()
            os.environ.update(ENVIRON)
            self.pinned = True
        for k in [k for k in os.environ if k not in ENVIRON]:
            del os.environ[k]
        for k, v in ENVIRON.items():
            if os.environ.get(k) != v:
                os.environ[k] = v
        if extra:
            os.environ.update(extra)
        return dict(os.environ)

    def unpin(self):
        os.environ.clear()
        os.environ.update(self.saved_env)
        self.pinned = False

    def __exit__(self, *a):
        try:
            self.unpin()
            sys.path[:] = self.saved_path
            self.logger.setLevel(self.saved_level)
            os.chdir(self.saved_cwd)
        finally:
            shutil.rmtree(self.dir, ignore_errors=True)


def _digest(obj):
    return hashlib.sha1(json.dumps(obj, sort_keys=True, default=repr).encode()).hexdigest()[:12]


def _same(kind, exp, got):
    """Does the value circus holds have the documented type and the written value?"""
    if exp is None:
        return got is None
    if exp is REF.DISABLED:
        return got is None or (type(got) in (int, float) and got == 0)
    if kind == REF.BOOL:
        return type(got) is bool and got == exp
    if kind in (REF.INT, 'octal', REF.SIG):
        return isinstance(got, int) and not isinstance(got, bool) and int(got) == exp
    if kind == REF.NUM:
        return isinstance(got, (int, float)) and not isinstance(got, bool) and got == exp
    if kind == REF.STR:
        return isinstance(got, str) and got == exp
    if kind == REF.IDENT:
        return isinstance(got, (str, int)) and not isinstance(got, bool) and str(got) == exp
    raise AssertionError(kind)


def _mismatch(kind, exp, got):
    try:
        if str(got) == str(exp) or (kind in (REF.INT, REF.NUM, 'octal', REF.SIG) and float(got) == float(exp)):
            return 'type'
    except (TypeError, ValueError):
        pass
    return 'value'


def _resolve(name):
    mod, _, attr = name.rpartition('.')
    return getattr(importlib.import_module(mod), attr)


_LOOP = object()


def _src(val):
    """Which layer a generated environment value came from (values are tagged by construction)."""
    if val is None:
        return 'absent'
    if val in ENVIRON.values():
        return 'os'
    if val.startswith('g'):
        return '[env]'
    if val.startswith('p') and val[1:2].isdigit():
        return '[env:NAME]#%s' % val[1]
    return 'other'


def _check(r, clause, cond, detail, where, case, fp=None, nontrivial=True):
    """EnumResult.check, keeping one witness per (clause, where, fp) and shard: EnumResult stores at most 300
    violations per shard, and a known finding that fires on every case must not use them up."""
    if cond or fp is None:
        return r.check(clause, cond, detail, where, case, fp=fp, nontrivial=nontrivial)
    seen = r.__dict__.setdefault('_c16_seen', set())
    key = (clause, where, fp)
    if key in seen:
        r.ev(clause, nontrivial)
        r.info['repeat_witnesses_not_stored'] = r.info.get('repeat_witnesses_not_stored', 0) + 1
        return False
    seen.add(key)
    return r.check(clause, cond, detail, where, case, fp=fp, nontrivial=nontrivial)


class Checker(object):
    def __init__(self, r, case, scratch):
        self.r, self.case, self.scratch = r, case, scratch
        self.fam = case['family']
        self.observed = {}

    # clause attribution: an option whose text holds a reference belongs to refs_expanded
    def clause_for(self, raw_text, default):
        if raw_text is not None and REF.has_reference(raw_text):
            return 'C16.refs_expanded'
        return default

    def defined_in(self, *texts):
        """Where the variables referenced in `texts` are defined: os / env / env:NAME (a tag for the report)."""
        tags = set()
        for text in texts:
            for a, b in REF.REFERENCE.findall(text or ''):
                low = (a or b).lower()
                if any(k.lower() == low for k in os.environ):
                    tags.add('os')
                for sec, items in self.raw:
                    if (sec == 'env' or sec.startswith('env:')) and any(k.lower() == low for k, _ in items):
                        tags.add('env' if sec == 'env' else 'env:NAME')
        return '+'.join(sorted(tags)) or 'nowhere'

    def fail_exc(self, where, exc, raws):
        """circus raised on a file the documentation gives a meaning to."""
        refs = [(k, v) for k, v in raws if REF.has_reference(v)]
        named = [(k, v) for k, v in refs if v in str(exc)]
        refs = named or refs          # the option whose unexpanded text the error message quotes
        tb = traceback.extract_tb(exc.__traceback__)
        site = '%s:%s' % (os.path.basename(tb[-1].filename), tb[-1].name) if tb else '?'
        if refs:
            clause = 'C16.refs_expanded'
            shape = 'error_on_reference:%s defined_in=%s' % (
                '+'.join(sorted(set(self._target_of(k) for k, v in refs))), self.defined_in(*[v for k, v in refs]))
            where = 'config.get_config/options'
        elif self.fam == 'E':
            clause, shape = 'C16.env_precedence', 'error'
        else:
            clause, shape = 'C16.values_typed', 'error:' + '+'.join(self.case['shape'].get('slots', []))
        detail = 'shape=%s | the documentation gives this file a meaning but circus raised %s: %s (at %s)' % (
            shape, type(exc).__name__, str(exc)[:200].replace('\n', ' '), site)
        _check(self.r, clause, False, detail, where, self.case, fp='%s|%s|%s' % (shape, type(exc).__name__, site))

    @staticmethod
    def _target_of(opt):
        if opt.startswith('rlimit_'):
            return 'rlimit_*'
        if opt.startswith('hooks.'):
            return 'hooks.*'
        return opt

    def run(self):
        from circus.config import get_config
        r, case, scratch = self.r, self.case, self.scratch
        work = scratch.work
        for name in os.listdir(work):
            os.unlink(os.path.join(work, name))
        for name, text in case['files'].items():
            with open(os.path.join(work, name), 'w') as f:
                f.write(text.replace(SCR, scratch.dir))
        main = os.path.join(work, 'circus.ini')
        environ = scratch.pin(case.get('environ_extra'))
        try:
            try:
                ref = REF.read(main, environ, sys_path=scratch.saved_path)
                raw = self.raw = ref['raw']
            except REF.Undefined as e:
                r.info['undefined_by_docs'] = r.info.get('undefined_by_docs', 0) + 1
                return False
            all_raw = [(k, v) for _, items in raw for k, v in items]
            try:
                cfg1 = get_config(main)
                cfg2 = get_config(main)
            except Exception as e:
                self.fail_exc('config.get_config', e, all_raw)
                return True
            _check(r, 'C16.deterministic', cfg1 == cfg2 and dict(os.environ) == environ,
                    lambda: 'shape=two_reads_differ | first=%r second=%r' % (cfg1, cfg2),
                    'config.get_config', case, fp='nondeterministic')
            self.compare_circus(ref, cfg1, dict(raw).get('circus', []))
            self.compare_watchers(ref, cfg1, dict(raw), raw)
            self.compare_sockets(ref, cfg1, dict(raw))
            self.compare_plugins(ref, cfg1, dict(raw))
            return True
        finally:
            sys.path[:] = scratch.saved_path

    # -- [circus] ------------------------------------------------------------------------------
    def compare_circus(self, ref, cfg, raw_items):
        raw = dict(raw_items)
        for k, exp in ref['circus']['written'].items():
            kind = REF.CIRCUS_OPTIONS[k][0]
            got = cfg.get(k, '<missing>')
            self.observed['circus.' + k] = repr(got)
            clause = self.clause_for(raw.get(k), 'C16.values_typed')
            _check(self.r, clause, _same(kind, exp, got),
                         lambda: 'shape=circus_option:%s/%s | [circus] %s = %r is documented as %s %r, circus holds %r'
                         % (k, _mismatch(kind, exp, got), k, raw.get(k), kind, exp, got),
                         'config.get_config/circus', self.case, fp='circus|%s|%s' % (k, _mismatch(kind, exp, got)))
        for k, exp in ref['circus']['defaults'].items():
            kind = REF.CIRCUS_OPTIONS[k][0]
            got = cfg.get(k, '<missing>')
            _check(self.r, 'C16.defaults', _same(kind, exp, got),
                         lambda: 'shape=circus_default:%s | documented default of [circus] %s is %r, circus holds %r'
                         % (k, k, exp, got), 'config.get_config/circus', self.case, fp='circus_default|%s' % k)

    # -- watchers ------------------------------------------------------------------------------
    def compare_watchers(self, ref, cfg, raw, raw_list):
        from circus.watcher import Watcher
        r, case = self.r, self.case
        got_names = sorted(w['name'] for w in cfg['watchers'])
        _check(r, 'C16.values_typed', got_names == sorted(ref['watchers']),
                lambda: 'shape=watcher_set | watcher sections %r, circus has %r' % (sorted(ref['watchers']), got_names),
                'config.get_config/options', case, fp='watcher_set')
        ref_vars = set()
        for sec, items in raw_list:
            if sec == 'env' or sec.startswith('env:'):
                ref_vars |= set(k for k, v in items if REF.has_reference(v))
        for wd in cfg['watchers']:
            name = wd['name']
            exp = ref['watchers'].get(name)
            if exp is None:
                continue
            wraw = dict(raw['watcher:' + name])
            d = copy.deepcopy(wd)
            d['loop'] = _LOOP
            try:
                w = Watcher.load_from_config(d)
            except Exception as e:
                self.fail_exc('watcher.load_from_config', e, list(wraw.items()))
                continue
            finally:
                sys.path[:] = self.scratch.saved_path
            try:
                self.compare_options(name, exp, wd, w, wraw)
                self.compare_env(name, exp, w, ref_vars)
            finally:
                for s in (w.stdout_stream, w.stderr_stream):
                    if s is not None and hasattr(s, 'close'):
                        try:
                            s.close()
                        except Exception:
                            pass

    def opt_check(self, default_clause, name, opt, kind, exp, got, rawtext, what='option'):
        ok = _same(kind, exp, got)
        clause = self.clause_for(rawtext, default_clause)
        self.observed['%s.%s' % (name, opt)] = repr(got)
        sites = ' defined_in=' + self.defined_in(rawtext) if clause.endswith('refs_expanded') else ''
        _check(self.r, clause, ok,
                     lambda: 'shape=%s:%s/%s%s | [watcher:%s] %s = %r is documented as %s %r, the watcher holds %r'
                     % (what, self._target_of(opt), _mismatch(kind, exp, got), sites, name, opt, rawtext, kind, exp, got),
                     'config.get_config/options', self.case,
                     fp='%s|%s|%s|%s%s' % (clause, what, self._target_of(opt), _mismatch(kind, exp, got), sites))

    def compare_options(self, name, exp, wd, w, wraw):
        r, case = self.r, self.case
        for opt, val in exp['written'].items():
            kind = REF.WATCHER_OPTIONS[opt][0]
            self.opt_check('C16.values_typed', name, opt, kind, val, getattr(w, opt, '<missing>'), wraw.get(opt))
        for opt, val in exp['defaults'].items():
            kind = REF.WATCHER_OPTIONS[opt][0]
            got = wd.get(opt) if opt == 'working_dir' else getattr(w, opt, '<missing>')
            _check(r, 'C16.defaults', _same(kind, val, got),
                    lambda: 'shape=default:%s | [watcher:%s] has no %s; documented default %r, the watcher holds %r'
                    % (opt, name, opt, val, got), 'config.get_config/options', case, fp='default|%s' % opt)
        # free-form options: "All options found in the configuration file ... are passed in this mapping"
        for opt, val in exp['free'].items():
            self.opt_check('C16.values_typed', name, opt, REF.STR, val, w._options.get(opt, '<missing>'),
                           wraw.get(opt), what='free_option')
        # rlimit_LIMIT
        got_rl = dict((k.lower(), v) for k, v in (w.rlimits or {}).items())
        for lim, val in exp['rlimits'].items():
            rawkey = [k for k in wraw if k.lower() == 'rlimit_' + lim][0]
            spelled = 'limit_lower' if rawkey == rawkey.lower() else 'limit_other_case'
            got = got_rl.get(lim, '<not a limit>')
            clause = self.clause_for(wraw[rawkey], 'C16.values_typed')
            _check(r, clause, _same(REF.INT, val, got),
                    lambda: 'shape=rlimit:%s/%s | [watcher:%s] %s = %r should set resource limit %s to %r; '
                    'the watcher has rlimits %r' % (spelled, 'empty' if wraw[rawkey] == '' else 'int', name, rawkey,
                                                    wraw[rawkey], lim.upper(), val, w.rlimits),
                    'config.get_config/options', case, fp='%s|rlimit|%s' % (clause, spelled))
        if not exp['rlimits']:
            _check(r, 'C16.defaults', not got_rl, 'shape=default:rlimits | no rlimit_ option, watcher has %r' % got_rl,
                    'config.get_config/options', case, fp='default|rlimits')
        # streams
        for chan in ('stdout_stream', 'stderr_stream'):
            conf = dict(exp[chan])
            got_conf = dict((k, str(v)) for k, v in wd.get(chan, {}).items())
            has_ref = any(REF.has_reference(wraw[k]) for k in wraw if k.startswith(chan + '.'))
            clause = 'C16.refs_expanded' if has_ref else 'C16.values_typed'
            if conf:
                stream = getattr(w, chan)
                cls = conf.get('class')
                ok = got_conf == conf and (cls is None or type(stream).__name__ == cls.rsplit('.', 1)[-1])
                self.observed['%s.%s' % (name, chan)] = repr(sorted(got_conf.items()))
                _check(r, clause, ok,
                        lambda: 'shape=stream:%s | [watcher:%s] %s.* options %r; the watcher got %r -> %r'
                        % (chan, name, chan, conf, got_conf, type(stream).__name__),
                        'config.get_config/options', case, fp='%s|stream|%s' % (clause, chan))
            else:
                _check(r, 'C16.defaults', not got_conf and getattr(w, chan) is None,
                        'shape=default:%s | no %s.* option, watcher has %r' % (chan, chan, got_conf),
                        'config.get_config/options', case, fp='default|' + chan)
        # hooks
        for hook, (fn, ignore) in exp['hooks'].items():
            rawtext = wraw['hooks.' + hook]
            clause = self.clause_for(rawtext, 'C16.values_typed')
            got_fn = w.hooks.get(hook)
            got_ignore = hook in w.ignore_hook_failure
            self.observed['%s.hooks.%s' % (name, hook)] = repr((getattr(got_fn, '__name__', got_fn), got_ignore))
            _check(r, clause, got_fn is _resolve(fn) and got_ignore == ignore,
                    lambda: 'shape=hook:%s | [watcher:%s] hooks.%s = %r means callable %s, ignore errors=%r; '
                    'the watcher holds %r, ignore errors=%r' % ('callable' if got_fn is not _resolve(fn) else 'flag',
                                                             name, hook, rawtext, fn, ignore, got_fn, got_ignore),
                    'config.get_config/options', case, fp='%s|hook|%s' % (clause, hook))
        if not exp['hooks']:
            _check(r, 'C16.defaults', not w.hooks, 'shape=default:hooks | no hooks.* option, watcher has %r' % w.hooks,
                    'config.get_config/options', case, fp='default|hooks')

    def compare_env(self, name, exp, w, ref_vars):
        r, case = self.r, self.case
        want = dict(exp['env'])
        got = dict(w.env or {})
        skip = set()
        if exp['written'].get('virtualenv'):
            skip = {'PATH', 'PYTHONPATH'}       # "loads its content into the execution environment"
        layered = len(set(_src(v) for v in want.values())) > 1      # two or more layers really meet
        self.observed['%s.env' % name] = repr(sorted(got.items()))
        # a variable nobody wrote
        extra = sorted(k for k in got if k not in want and k not in skip)
        _check(r, 'C16.env_precedence', not extra,
                lambda: 'shape=extra_var:%s | [watcher:%s] workers get variable(s) %r that no section and not '
                'os.environ(copy_env=%r) defines: %r' % (','.join(extra), name, extra, exp['written'].get('copy_env', False),
                                                           dict((k, got[k]) for k in extra)),
                'config.get_config/env', case, fp='extra_var|%s' % ','.join(extra), nontrivial=layered)
        diffs = []
        for k in sorted(want):
            if k in skip:
                continue
            if got.get(k) != want[k]:
                diffs.append(k)
        plain = [k for k in diffs if k not in ref_vars]
        refd = [k for k in diffs if k in ref_vars]
        copy_env = exp['written'].get('copy_env', False)

        def describe(keys):
            return '; '.join('%s: documented %r (from %s), workers get %r (from %s)'
                             % (k, want[k], _src(want[k]), got.get(k), _src(got.get(k))) for k in keys)
        _check(r, 'C16.env_precedence', not plain,
                lambda: 'shape=env_value:%s | [watcher:%s] copy_env=%r: %s'
                % ('+'.join('%s<-%s' % (_src(want[k]).split('#')[0], _src(got.get(k)).split('#')[0]) for k in plain),
                   name, copy_env, describe(plain)),
                'config.get_config/env', case,
                fp='env|' + '+'.join(sorted(set('%s<-%s' % (_src(want[k]).split('#')[0], _src(got.get(k)).split('#')[0])
                                                for k in plain))) + '|copy_env=%r' % copy_env,
                nontrivial=layered)
        if ref_vars & set(want):
            _check(r, 'C16.refs_expanded', not refd,
                    lambda: 'shape=ref_in_env_value:%s | [watcher:%s] %s'
                    % ('+'.join(sorted(set(self._env_section_of(k) for k in refd))), name, describe(refd)),
                    'config.get_config/env', case,
                    fp='ref_in_env_value|' + '+'.join(sorted(set(self._env_section_of(k) for k in refd))))

    def _env_section_of(self, var):
        for name, text in self.case['files'].items():
            sec = None
            for line in text.splitlines():
                if line.startswith('['):
                    sec = line.strip('[]')
                elif line.startswith(var + ' = ') and sec and (sec == 'env' or sec.startswith('env:')):
                    return '[%s]' % ('env' if sec == 'env' else 'env:NAME')
        return '?'

    # -- sockets / plugins ---------------------------------------------------------------------
    def compare_sockets(self, ref, cfg, raw):
        from circus.sockets import CircusSocket
        r, case = self.r, self.case
        by = dict((s['name'], s) for s in cfg['sockets'])
        for name, exp in ref['sockets'].items():
            sraw = dict(raw['socket:' + name])
            sd = by.get(name)
            if sd is None:
                _check(r, 'C16.values_typed', False, 'shape=socket_missing | [socket:%s] not returned' % name,
                        'config.get_config/sockets', case, fp='socket_missing')
                continue
            try:
                s = CircusSocket.load_from_config(dict(sd))
            except Exception as e:
                self.fail_exc('sockets.load_from_config', e, list(sraw.items()))
                continue
            try:
                got = {'host': s.host, 'port': s.port, 'family': s.family.name, 'type': s.socktype.name,
                       'interface': s.interface, 'path': s.path}
            finally:
                s.close()
            # only "references in any option expand" concerns sockets; their option typing and defaults do not
            for k, val in exp['written'].items():
                if not REF.has_reference(sraw.get(k)):
                    continue
                kind = REF.SOCKET_OPTIONS[k][0]
                g = got[k]
                sites = self.defined_in(sraw.get(k))
                self.observed['socket.%s.%s' % (name, k)] = repr(g)
                _check(r, 'C16.refs_expanded', _same(kind, val, g),
                       lambda: 'shape=socket_option:%s/%s defined_in=%s | [socket:%s] %s = %r means %s %r, the socket holds %r'
                       % (k, _mismatch(kind, val, g), sites, name, k, sraw.get(k), kind, val, g),
                       'sockets.load_from_config', case, fp='refs|socket|%s|%s' % (k, sites))

    def compare_plugins(self, ref, cfg, raw):
        r, case = self.r, self.case
        by = dict((p['name'], p) for p in cfg['plugins'])
        for name, exp in ref['plugins'].items():
            praw = dict(raw['plugin:' + name])
            pd = by.get('plugin:' + name) or by.get(name)
            for k, val in exp.items():
                got = None if pd is None else pd.get(k, '<missing>')
                clause = self.clause_for(praw.get(k), 'C16.values_typed')
                self.observed['plugin.%s.%s' % (name, k)] = repr(got)
                _check(r, clause, got is not None and str(got) == val,
                        lambda: 'shape=plugin_option:%s | [plugin:%s] %s = %r means %r, the plugin gets %r'
                        % (k, name, k, praw.get(k), val, got), 'config.get_config/plugins', case,
                        fp='%s|plugin|%s' % (clause, k), nontrivial=REF.has_reference(praw.get(k, '')) or clause.endswith('typed'))


def check_case(case, scratch, r):
    c = Checker(r, case, scratch)
    defined = c.run()
    return defined, c.observed


def run_shard(shard, tier):
    r = EnumResult()
    with Scratch() as scratch:
        for case in cases_of(shard):
            r.cases += 1
            defined, observed = check_case(case, scratch, r)
            if defined:
                r.nontrivial.add(_digest([case['files'], case.get('environ_extra')]))
                r.outcomes.add(_digest(observed))
            if len(r.samples) < 2:
                r.samples.append({'shape': case['shape'], 'circus.ini': case['files']['circus.ini'].splitlines()})
    r.info['cases_' + shard[0][0]] = r.cases
    return r


def replay_case(case):
    """Failing (clause, detail, where) of this single case; known findings are printed, not returned
    (vt.main.replay decides by clause id only, and e.g. F30 fails C16.env_precedence on every tree)."""
    from vt import findings as F
    r = EnumResult()
    with Scratch() as scratch:
        check_case(case, scratch, r)
    known = F.load_known()
    out = []
    for v in r.violations:
        k = F.match_known(known, ID, v)
        if k is not None:
            print('KNOWN-FINDING (not counted): %s at %s: %s' % (v['clause'], v['where'], k['id']))
            continue
        out.append((v['clause'], v['detail'], v['where']))
    return out

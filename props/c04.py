"""C04 — Process accounting is exact: no leaked, untracked or phantom worker."""
from props.common import *      # noqa: F401,F403
from props.common import pattern, G, numprocesses_of, listed_pids, status_of, nth_hook, rejected_by_after_spawn
from props.hist import run_history, live
from vt.clock import CLOCK
from vt.events import Req, EXIT1, KILLED9
from vt.explorer import Result
from vt.runner import Scenario
from vt.world import World, WSpec

ID = 'C04'
KIND = 'explorer'
LEVEL = 'model_checking'
GRAPH = {'quick': 2, 'thorough': 3}
BUDGET = {'quick': 900, 'thorough': 10800}
RULE = ('breadth-first search over canonical quiescent states of a two-watcher daemon; bursts of '
        '<= (1 request + 1 worker death) at every loop-iteration boundary / before every kernel call; worlds with '
        'hook outcomes {false, raise} on the k-th call of before_spawn / after_spawn / after_start and exec '
        'failures at the j-th process creation; accounting oracles after at most one periodic check')
ASSUMPTIONS = ['rm --nostop is excluded (C15 documents that exemption)']


class _Sink(object):
    def __call__(self, data):
        pass


def scenarios(tier):
    out = [Scenario('acct', pat='obedient', hook=None, fault=None, tier=tier),
           Scenario('acct', pat='first-stubborn', hook=None, fault=None, tier=tier)]
    hooks = [('before_spawn', False, 2), ('after_spawn', False, 2), ('after_spawn', 'raise', 3),
             ('after_start', False, 1), ('before_spawn', 'raise', 3)]
    if tier == 'thorough':
        hooks += [('before_spawn', False, 1), ('after_spawn', False, 1), ('after_spawn', False, 3),
                  ('after_start', 'raise', 1), ('before_start', False, 1), ('after_start', False, 2)]
    for h in hooks:
        for pat in (('obedient', 'stubborn') if tier == 'thorough' or h[0] == 'after_spawn' else ('obedient',)):
            out.append(Scenario('acct', pat=pat, hook=list(h), fault=None, tier=tier))
    faults = [(2, 1), (2, 2), (4, 2)] if tier == 'quick' else [(j, c) for j in (1, 2, 3, 4, 5, 6) for c in (1, 2)]
    for j, c in faults:
        out.append(Scenario('acct', pat='obedient', hook=None, fault=[j, c], tier=tier))
    out.append(Scenario('acct', pat='obedient', hook=None, fault=[3, 1, 'RuntimeError'], tier=tier))
    out.append(Scenario('acct', pat='slow', hook=None, fault=None, tier=tier, tick=0.3))
    # both watchers capture their workers' output: the pipes (and the loop handlers registered for their descriptor
    # numbers) come and go with the workers, and a descriptor number is reused by the next worker of either watcher
    for pat in ('first-stubborn', 'stubborn'):
        out.append(Scenario('acct', pat=pat, hook=None, fault=None, tier=tier, streams=True))
    # workers that are still there for an instant after their SIGKILL: whoever forgets them right away leaves their
    # collection to the next periodic check
    out.append(Scenario('acct', pat='stubborn-lag', hook=None, fault=None, tier=tier))
    # a grace period the 0.1 s polling loop lands on exactly (0.1 + 0.1 + ... == 0.5 in floating point, unlike 0.25 or 0.3)
    out.append(Scenario('acct', pat='stubborn', hook=None, fault=None, tier=tier, g=0.5))
    return out


def plan(tier, gen):
    """(request budget, death budget, deviation bound) of a burst in generation `gen`."""
    if tier == 'quick':
        return {1: (1, 1, 2)}.get(gen, (1, 0, 1))
    return {1: (1, 1, 2), 2: (1, 1, 1)}.get(gen, (1, 0, 1))


def bound(tier, scn, gen=1):
    return plan(tier, gen)[2]


def bounds(tier):
    return {'generations': GRAPH[tier], 'watchers': 'a (n=2, hooks/faults), b (n=1), c added on request',
            'burst_per_generation(requests,deaths,bound)': {str(g): plan(tier, g) for g in range(1, GRAPH[tier] + 1)},
            'max_retry': 2, 'graceful_timeout': G}


def alphabet(world):
    evs = []
    wa = world.watcher('a')
    if wa is not None:
        evs += [Req('start', name='a'), Req('stop', name='a'), Req('restart', name='a'),
                Req('reload', name='a'), Req('incr', name='a'), Req('decr', name='a'),
                Req('set', label='set(a.np=3)', name='a', options={'numprocesses': 3}),
                Req('kill', name='a'), Req('rm', name='a')]
    evs += [Req('stop', label='stop(b)', name='b'), Req('restart', label='restart(*)', name='*')]
    if world.watcher('c') is None:
        evs.append(Req('add', label='add(c,start)', name='c', cmd='sleep 60', start=True,
                       options={'graceful_timeout': G}))
    return evs


def run(scn, ch):
    res = Result()
    tier = scn.tier

    def make_world(ch):
        world = World(ch, [], check_delay=scn.p.get('tick', 1.0))
        opts = dict(numprocesses=2, graceful_timeout=scn.p.get('g', G), max_retry=2)
        if scn.hook:
            name, outcome, k = scn.hook
            opts['hooks'] = {name: (nth_hook(world, k, outcome), False)}
        bopts = {}
        if scn.p.get('streams'):
            opts['stdout_stream'] = {'stream': _Sink()}
            opts['stderr_stream'] = {'stream': _Sink()}
            bopts['stdout_stream'] = {'stream': _Sink()}
        specs = [WSpec('a', behaviours=pattern(scn.pat), **opts),
                 WSpec('b', numprocesses=1, graceful_timeout=G, **bopts)]
        world.specs = {s.name: s for s in specs}
        world.spec_list = specs
        if scn.fault:
            j, cnt = scn.fault[0], scn.fault[1]
            exc = RuntimeError if len(scn.fault) > 2 else None

            def fault(kernel, attempt, info):
                if j <= attempt < j + cnt:
                    return exc('boom') if exc else OSError(2, 'No such file or directory')
                return None
            world.kernel.popen_fault = fault
        return world

    def budgets(g):
        r, d, _ = plan(tier, g)
        return {'req': r, 'die': d}

    def on_quiescent(world, res, gen, win):
        k = world.kernel
        ev_lab = [e.label for _, e in win.applied]
        names = [w.name for w in world.arbiter.watchers]
        owned = {}
        rej = rejected_by_after_spawn(world)
        res.check('C04.quiesces', world.quiescent_ok, lambda: 'daemon not quiescent 12s after %s (slot=%r)' % (ev_lab, world.slot()),
                  where='arbiter')
        if not world.quiescent_ok:
            return
        for name in names:
            lp = listed_pids(world, name)
            lv = sorted(p.pid for p in live(world, name))
            npr = numprocesses_of(world, name)
            st = status_of(world, name)
            stats = world.ask('stats', name=name)
            skeys = sorted(int(x) for x in (stats or {}).get('info', {}).keys()) if stats and stats.get('status') == 'ok' else None
            unl = set(lv) - set(lp or [])
            site = 'spawn_process/after_spawn-rejected' if unl and unl <= rej else 'watcher.processes'
            res.check('C04.listed_eq_live', lp == lv,
                      lambda: '%s: list=%s but live children spawned for it=%s (after %s)' % (name, lp, lv, ev_lab),
                      where=site, nontrivial=bool(win.applied))
            res.check('C04.counts_agree', npr == len(lp or []) and skeys == lp,
                      lambda: '%s: numprocesses reply=%r, list=%s, stats pids=%s' % (name, npr, lp, skeys),
                      where='commands.numprocesses/stats')
            dead = [pid for pid in (lp or []) if k.procs[pid].state != RUNNING]
            res.check('C04.no_dead_listed', not dead, lambda: '%s lists dead pids %s one check after %s' % (name, dead, ev_lab),
                      where='watcher.manage_processes')
            if st == 'stopped':
                res.check('C04.stopped_iff_empty', not lp and not lv,
                          lambda: '%s reports stopped with listed=%s live=%s' % (name, lp, lv),
                          where='spawn_process/after_spawn-rejected' if set(lv) and set(lv) <= rej else 'watcher._stop')
            res.check('C04.no_transient_status', st in ('active', 'stopped'),
                      lambda: '%s stays in status %r with no operation in flight (after %s)' % (name, st, ev_lab),
                      where='watcher._status')
            for pid in lp or []:
                owned.setdefault(pid, []).append(name)
        removed = set(p.watcher for p in k.spawn_log) - set(names)
        for p in k.spawn_log:
            if p.watcher in removed:
                continue
            if p.state == RUNNING:
                res.check('C04.partition', len(owned.get(p.pid, [])) == 1,
                          lambda: 'live child %d of %s is listed under %s' % (p.pid, p.watcher, owned.get(p.pid, [])),
                          where='spawn_process/after_spawn-rejected' if p.pid in rej else 'watcher.processes',
                          nontrivial=bool(win.applied))
        for p in k.spawn_log:
            if p.watcher in removed and p.state == RUNNING:
                res.check('C04.partition', False, 'live child %d belongs to removed watcher %s' % (p.pid, p.watcher),
                          where='spawn_process/after_spawn-rejected' if p.pid in rej else 'arbiter.rm_watcher')
        zomb = [p.pid for p in k.spawn_log if p.state == ZOMBIE]
        res.check('C04.no_zombie', not zomb, lambda: 'zombie children %s outlive a periodic check (after %s)' % (zomb, ev_lab),
                  where='arbiter.reap_processes', nontrivial=any('die' in l for l in ev_lab))

    return run_history(scn, ch, make_world, alphabet, budgets, on_quiescent, res=res, settle_checks=1,
                       horizon=12.0, statuses=(EXIT1,) if tier == 'quick' else (EXIT1, KILLED9))

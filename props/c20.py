"""C20 — Log files rotate by size without losing or reordering retained data.

Bounded-exhaustive enumeration of write/reopen sequences against the real
circus.stream.file_stream.FileStream on real files in a scratch directory, judged after every event
by the reference model vt/refmodels/logtail.py (a log is one string).
"""
import datetime
import itertools
import os
import shutil
import tempfile

from circus.stream.file_stream import FileStream

from vt.explorer import digest
from vt.main import EnumResult
from vt.refmodels import logtail as LT

ID = 'C20'
KIND = 'enum'
LEVEL = 'exploration'
TECHNIQUE = ('bounded-exhaustive input enumeration against a reference model '
             '(small-scope model checking of a sequential component)')
RULE = ('a case = one FileStream configuration (max_bytes, backup_count, time_format on/off, payload newline '
        'mode, with/without files left by an earlier instance of the same configuration) + one event sequence; '
        'events are writes of n payload bytes (payload characters encode the running offset, period 94), '
        'R = close()+open() of the same instance, N = close()+a new FileStream on the same path. '
        'Families: A all write-size sequences of the stated length over sizes 1..room-1 (room = max_bytes, or '
        'max_bytes minus the 11-byte line overhead when time_format is on) -- every shorter sequence is a prefix '
        'and is judged when first reached; B the same with exactly one R/N at every position; C the same with '
        'exactly one write >= max_bytes at every position (below_max not judged from there on); D rotation off '
        '(no settings / max_bytes=0) over sizes 1..4 + R + N freely mixed, str and bytes payloads, with and '
        'without content already in the file. Every case runs the real FileStream on real files in a scratch '
        'directory; the directory is read back and judged after every event (each distinct (configuration, '
        'prefix) is judged once: cases are visited in lexicographic order and a shared prefix is re-executed '
        'but not re-read). Cases are pairwise distinct by construction. Non-trivial case: at least one rollover '
        'was observed (A-C) / a reopen happened or the file pre-existed (D). Outcome = family, settings, final '
        'file sizes and number of rollovers.')
ASSUMPTIONS = [
    'C20 only: none of the daemon/simulated-kernel assumptions above are used; FileStream is driven directly, '
    'single-threaded, on real files in a fresh tempfile.mkdtemp() per shard ($TMPDIR if set, else the tmpfs '
    '/dev/shm, else the default; always outside /repo and /verif, removed in a finally); POSIX rename/unlink '
    'semantics; no I/O errors, no concurrent writer, nobody else touches the directory',
    'the "randomly beyond" part of the quantifier is NOT done: there is no sampling; only the bounds listed '
    'under coverage.bounds are covered (max_bytes 4..8, or 15..19 with time_format; backup_count 1..3)',
    'payloads are ASCII (one byte per character), given as str or bytes; no payload has two consecutive '
    'newlines or consists of a newline only; non-ASCII text (where len(str) != bytes written) is not covered',
    'time seams: the documented per-instance hooks `now` and `fromtimestamp` are set on each stream instance '
    '(fixed datetime / epoch + seconds), time_format is "%S", the pid is the `pid` field of each datum; '
    'writes alternate between data with and without a `timestamp` field',
    'files left by an "earlier instance" are produced by really running an earlier FileStream with the same '
    'settings (backup_count+1 writes of the largest small size, then close)',
    'files are observed after each call returns, not in the middle of a call',
    'below_max is judged only while every record so far, as written, was shorter than max_bytes: not after the '
    'oversize write of family C, and not after a two-line payload (newline mode "mid", 3+ bytes) with '
    'time_format on, whose two prefixed lines exceed max_bytes in these bounds',
    'prefix sharing relies on FileStream being deterministic; every 61st case the state after the silently '
    're-executed prefix is read back and must equal the state recorded when that prefix was judged',
    'the retention part of contiguous_tail (data may leave only by falling off .<backup_count> when all slots '
    'are taken) is taken from the rollover description in docs/source/for-ops/configuration.rst',
]

W_SHOULD = 'file_stream.FileStream._should_rollover'
W_ROLL = 'file_stream.FileStream._do_rollover'
W_WRITE = 'file_stream._FileStreamBase.write_data'
W_OPEN = 'file_stream._FileStreamBase._open'
W_CALL = 'file_stream.FileStream.__call__'

BASE = 'out.log'
SEED_TEXT = 'kept from before\n'
ALPHA = ''.join(chr(c) for c in range(33, 127))          # 94 printable, no space, no newline
NOW = datetime.datetime(2001, 2, 3, 4, 5, 59)
EPOCH0 = datetime.datetime(2001, 2, 3, 4, 5, 0)
TIME_FORMAT = '%S'
P_LEN = len(LT.prefix_for('59', 10))                     # 10; a one-line record costs P_LEN + 1 extra bytes
SPOT = 61


# ------------------------------------------------------------------------------------------ bounds

ROOMS = [4, 5, 6, 7, 8]      # max_bytes with time_format off; payload sizes are 1..room-1 in both modes

# Sequence lengths (number of enumerated events; for B and C one of them is the special event), per
# room 4..8.  pre=1 rows are the "files left by an earlier instance" variants (their event lists are
# additionally preceded by the earlier instance's backup_count+1 writes and an 'N').
LENGTHS = {
    'quick': {
        ('A', 0, 0): [6, 6, 5, 5, 5], ('A', 0, 1): [5, 5, 5, 4, 4],
        ('A', 1, 0): [5, 4, 4, 4, 3], ('A', 1, 1): [5, 4, 4, 4, 3],
        ('B', 0, 0): [5, 5, 5, 4, 4],
        ('C', 0, 0): [5, 5, 5, 4, 4], ('C', 0, 1): [5, 5, 5, 4, 4],
        'D': 4,
    },
    'thorough': {
        ('A', 0, 0): [7, 7, 7, 7, 6], ('A', 0, 1): [6, 6, 6, 6, 6],
        ('A', 1, 0): [6, 6, 6, 5, 5], ('A', 1, 1): [5, 5, 5, 4, 4],
        ('B', 0, 0): [6, 6, 6, 6, 6], ('B', 0, 1): [5, 5, 5, 5, 5],
        ('C', 0, 0): [6, 6, 6, 6, 5], ('C', 0, 1): [5, 5, 5, 5, 5],
        'D': 5,
    },
}
BIG = {   # family C: the oversize write, by (tier, pre)
    ('quick', 0): ['M', '2M+1'], ('quick', 1): ['M'],
    ('thorough', 0): ['M', 'M+1', '2M+1'], ('thorough', 1): ['M', '2M+1'],
}


def _plan(tier):
    """-> list of cfg dicts (one per configuration x family)."""
    T = LENGTHS[tier]
    out = []
    for (key, ls) in sorted((k, v) for k, v in T.items() if k != 'D'):
        fam, tf, pre = key
        for m, L in zip(ROOMS, ls):
            for n in (1, 2, 3):
                # with time_format and pre-existing files only the one-line payloads
                nls = ('none',) if not tf or pre else ('none', 'end', 'mid')
                for nl in nls:
                    out.append(_cfg(fam, m, n, tf, nl, pre, L, big=BIG[tier, pre] if fam == 'C' else None))
    for rot in ('none', 'mb0'):
        for tf in (0, 1):
            for nl in ('none', 'end', 'mid'):
                for dtype in ('str', 'bytes'):
                    for seed in (0, 1):
                        out.append(_cfg('D', 5, 2 if rot == 'mb0' else 0, tf, nl, 0, L=T['D'],
                                        rot=rot, dtype=dtype, seed=seed))
    return out


def _cfg(fam, m, n, tf, nl, pre, L, rot='on', dtype='alt', seed=0, big=None):
    M = 0 if rot != 'on' else (m + P_LEN + 1 if tf else m)
    if rot == 'on' and tf and nl == 'mid':
        # chunks of two lines: each line gets its own prefix, and the limit leaves room for both plus m payload bytes
        M = m + 2 * (P_LEN + 1)
    cfg = {'fam': fam, 'rot': rot, 'max_bytes': M, 'backup_count': n, 'tf': tf, 'nl': nl, 'pre': pre,
           'dtype': dtype, 'seed': seed, 'sizes': list(range(1, m)), 'L': L, 'specials': [], 'nspecial': 0}
    if fam == 'B':
        cfg['specials'] = ['R', 'N']
        cfg['nspecial'] = 1
    elif fam == 'C':
        cfg['specials'] = [{'M': M, 'M+1': M + 1, '2M+1': 2 * M + 1}[b] for b in big]
        cfg['nspecial'] = 1
    elif fam == 'D':
        cfg['specials'] = ['R', 'N']
        cfg['nspecial'] = None
    return cfg


def bounds(tier):
    T = LENGTHS[tier]

    def row(key):
        return dict(zip(['room=%d' % m for m in ROOMS], T[key])) if key in T else 'not in this tier'
    return {
        'max_bytes': {'time_format off': ROOMS, 'time_format on': [m + P_LEN + 1 for m in ROOMS],
                      'note': 'room = max_bytes (time_format off) or max_bytes-%d (on: each one-line record costs '
                              '%d extra bytes); payload sizes are 1..room-1, i.e. every record as written is '
                              'shorter than max_bytes' % (P_LEN + 1, P_LEN + 1)},
        'backup_count': [1, 2, 3],
        'A_all_write_size_sequences_of_length': {
            'time_format off': row(('A', 0, 0)), 'time_format off, files left by an earlier instance': row(('A', 0, 1)),
            'time_format on (newline modes none/end/mid)': row(('A', 1, 0)),
            'time_format on, files left by an earlier instance (newline mode none)': row(('A', 1, 1))},
        'B_length_incl_exactly_one_R_or_N_at_every_position': {
            'fresh': row(('B', 0, 0)), 'files left by an earlier instance': row(('B', 0, 1))},
        'C_length_incl_exactly_one_oversize_write_at_every_position': {
            'fresh': row(('C', 0, 0)), 'files left by an earlier instance': row(('C', 0, 1)),
            'oversize sizes fresh': BIG[tier, 0], 'oversize sizes with earlier files': BIG[tier, 1]},
        'D_rotation_off': {'settings': ['none given', 'max_bytes=0 backup_count=2'], 'alphabet': [1, 2, 3, 4, 'R', 'N'],
                           'length': T['D'], 'payload': ['str', 'bytes'],
                           'newline_modes': ['none', 'end', 'mid'], 'time_format': ['off', 'on'],
                           'file_pre_exists': [False, True]},
        'shorter_sequences': 'every proper prefix of an enumerated sequence is judged too (once)',
        'sampling': 'none',
    }


# ------------------------------------------------------------------------------------ enumeration

def _count(cfg, rem, used):
    b, s, ns = len(cfg['sizes']), len(cfg['specials']), cfg['nspecial']
    if ns is None:
        return (b + s) ** rem
    if ns == 0 or used:
        return b ** rem
    return rem * s * b ** (rem - 1) if rem else 0


def _used(cfg, prefix):
    return sum(1 for e in prefix if e in cfg['specials'])


def _children(cfg, prefix):
    rem = cfg['L'] - len(prefix) - 1
    used = _used(cfg, prefix)
    ns = cfg['nspecial']
    out = []
    if ns is None or ns == 0 or used or rem >= 1:
        out += cfg['sizes']
    if ns is None or (ns and not used):
        out += cfg['specials']
    return out


def _gen(cfg, prefix):
    """All full sequences extending prefix, depth first (so neighbours share long prefixes)."""
    if len(prefix) == cfg['L']:
        yield prefix
        return
    for e in _children(cfg, prefix):
        for s in _gen(cfg, prefix + [e]):
            yield s


def _prelude(cfg):
    if not cfg['pre']:
        return []
    return [cfg['sizes'][-1]] * (cfg['backup_count'] + 1) + ['N']


def shards(tier):
    cap = 15000 if tier == 'quick' else 40000
    out = []
    for cfg in _plan(tier):
        todo = [[]]
        while todo:
            p = todo.pop()
            c = _count(cfg, cfg['L'] - len(p), bool(_used(cfg, p)))
            if c > cap and len(p) < cfg['L'] - 1:
                todo.extend(p + [e] for e in _children(cfg, p))
            elif c:
                out.append((c, {'cfg': cfg, 'prefix': p}))
    out.sort(key=lambda t: -t[0])            # largest first: short tail on 16 cores
    return [s for _c, s in out] + [{'fault': (m, n)} for m in (8, 12) for n in (1, 2)]


# ------------------------------------------------------------------- family X: one I/O fault inside a rollover
# Outside the letter of the quantifier (which ranges over inputs), inside its spirit: a rotation that fails once - a backup
# slot that cannot be renamed or removed, the reopen that hits EMFILE - loses at most the write during which it failed.
# Every write before and after it is accepted, and the files are still a bounded, contiguous, unduplicated tail of the
# ACCEPTED writes.
FAULT_OPS = ['rename', 'remove', 'open']
W_FAULT = 'file_stream.FileStream._do_rollover/after-a-failed-rollover'


def _fault_cases(m, n, tier):
    L = 6 if tier == 'quick' else 7
    for sizes in itertools.product((3, 5), repeat=L):
        for op in FAULT_OPS:
            for k in (1, 2, 3, 4):
                yield {'fam': 'X', 'max_bytes': m, 'backup_count': n, 'sizes': list(sizes), 'fault_op': op, 'fault_k': k}


def run_fault_case(r, case):
    import circus.stream.file_stream as FS
    from vt.fakezmq import ModuleProxy
    d = _scratch()
    path = os.path.join(d, BASE)
    count = {'n': 0, 'fired': None}
    cur = {'i': None}

    def faulty(name, real):
        def f(*a, **k):
            if case['fault_op'] == name and count['fired'] is None:
                count['n'] += 1
                if count['n'] == case['fault_k']:
                    count['fired'] = cur['i']
                    raise OSError(24, 'injected %s failure' % name)
            return real(*a, **k)
        return f
    real_os = FS.os
    FS.os = ModuleProxy(real_os, rename=faulty('rename', real_os.rename), remove=faulty('remove', real_os.remove))
    stream = None
    try:
        stream = FileStream(path, max_bytes=case['max_bytes'], backup_count=case['backup_count'])
        real_open = stream._open
        opens = {'armed': False}

        def _open():
            if opens['armed']:
                return faulty('open', real_open)()
            return real_open()
        stream._open = _open
        opens['armed'] = True
        accepted, refused = [], []
        off = 0
        for i, size in enumerate(case['sizes']):
            cur['i'] = i
            payload = ''.join(ALPHA[(off + j) % len(ALPHA)] for j in range(size))
            off += size
            try:
                stream({'data': payload, 'pid': 1})
                accepted.append(payload)
            except Exception as e:       # noqa
                refused.append((i, '%s: %s' % (type(e).__name__, e)))
        desc = lambda: 'max_bytes=%d backup_count=%d writes %s, the %d. %s of the rollovers fails (during write %s)' % (  # noqa
            case['max_bytes'], case['backup_count'], case['sizes'], case['fault_k'], case['fault_op'], count['fired'])
        late = [x for x in refused if x[0] != count['fired']]
        r.check('C20.recovers_after_failed_rollover', not late,
                lambda: desc() + ': writes %s were refused although the fault was over: %s' % ([x[0] for x in late], late[0][1]),
                W_FAULT, case, fp='late-refusal-' + case['fault_op'], nontrivial=count['fired'] is not None)
        try:
            stream.close()
        except Exception:        # noqa  (closing a stream whose last rollover failed: nothing is stated about it)
            pass
        names = sorted(os.listdir(d))
        backs = sorted((int(nm[len(BASE) + 1:]) for nm in names if nm.startswith(BASE + '.') and nm[len(BASE) + 1:].isdigit()),
                       reverse=True)
        text = ''
        for b in backs:
            text += open('%s.%d' % (path, b)).read()
        active = open(path).read() if os.path.exists(path) else ''
        text += active
        whole = ''.join(accepted)
        r.check('C20.contiguous_tail', whole.endswith(text) and (not accepted or text.endswith(accepted[-1])),
                lambda: desc() + ': files hold %r, accepted writes were %r' % (text, whole), W_FAULT, case,
                fp='tail-after-fault-' + case['fault_op'], nontrivial=count['fired'] is not None)
        r.check('C20.below_max', len(active) < case['max_bytes'],
                lambda: desc() + ': active file has %d bytes' % len(active), W_FAULT, case, fp='max-after-fault')
        r.check('C20.backup_bound', len(backs) <= case['backup_count'],
                lambda: desc() + ': backups %s' % backs, W_FAULT, case, fp='backups-after-fault')
        r.outcomes.add(digest([count['fired'] is not None, len(refused), len(backs)]))
        if count['fired'] is not None:
            r.nontrivial_count += 1
    finally:
        FS.os = real_os
        if stream is not None:
            try:
                stream.close()
            except Exception:      # noqa
                pass
        shutil.rmtree(d, ignore_errors=True)


# ------------------------------------------------------------------------------------- the engine

class State(object):
    __slots__ = ('ref', 'snap', 'off', 'rolls', 'reopened')

    def __init__(self, ref, snap, off, rolls, reopened):
        self.ref, self.snap, self.off, self.rolls, self.reopened = ref, snap, off, rolls, reopened


class Engine(object):
    def __init__(self, d, cfg, share=True):
        self.d = d
        self.path = os.path.join(d, BASE)
        self.cfg = cfg
        self.share = share
        self.prelude = _prelude(cfg)
        self.stack = []
        self.prev = None
        self.stream = None
        self.clauses = {}
        self.viol = {}            # (clause, where, fp) -> (len(events), clause, detail, where, case, fp)
        self.all_fail = []        # every failure, for replay
        self.cases = 0
        self.nontrivial = 0
        self.outcomes = set()
        self.samples = []
        self.info = {'events_executed': 0, 'events_judged': 0, 'rollovers_observed': 0, 'determinism_spot_checks': 0}

    # -- the real thing
    def _new_stream(self):
        cfg = self.cfg
        kw = {}
        if cfg['rot'] != 'none':
            kw['max_bytes'] = cfg['max_bytes']
            kw['backup_count'] = cfg['backup_count']
        if cfg['tf']:
            kw['time_format'] = TIME_FORMAT
        s = FileStream(self.path, **kw)
        s.now = lambda: NOW
        s.fromtimestamp = lambda ts: EPOCH0 + datetime.timedelta(seconds=ts)
        return s

    def _fresh_world(self):
        if self.stream is not None:
            try:
                self.stream.close()
            except Exception:
                pass
        for nm in os.listdir(self.d):
            os.unlink(os.path.join(self.d, nm))
        if self.cfg['seed']:
            with open(self.path, 'w') as f:
                f.write(SEED_TEXT)
        self.stream = self._new_stream()

    def _concrete(self, i, ev, off):
        """The datum handed to the stream for event i (a write of ev payload bytes)."""
        cfg = self.cfg
        chars = [ALPHA[(off + j) % len(ALPHA)] for j in range(ev)]
        if cfg['nl'] == 'end' and ev >= 2:
            chars[-1] = '\n'
        elif cfg['nl'] == 'mid' and ev >= 3:
            chars[ev // 2] = '\n'
        payload = ''.join(chars)
        as_bytes = cfg['dtype'] == 'bytes' or (cfg['dtype'] == 'alt' and i % 2 == 1)
        data = {'data': payload.encode('ascii') if as_bytes else payload, 'pid': 10 + i % 80}
        stamp = '59'
        if i % 2 == 1:
            data['timestamp'] = i % 50
            stamp = '%02d' % (i % 50)
        prefix = LT.prefix_for(stamp, data['pid']) if cfg['tf'] else None
        return data, payload, prefix

    def _exec(self, i, ev, off):
        self.info['events_executed'] += 1
        try:
            if ev == 'R':
                self.stream.close()
                self.stream.open()
            elif ev == 'N':
                self.stream.close()
                self.stream = self._new_stream()
            else:
                self.stream(self._concrete(i, ev, off)[0])
        except Exception as e:        # noqa
            return '%s: %s' % (type(e).__name__, str(e)[:120])
        return None

    def _observe(self):
        active, backups, strays = None, [], []
        for nm in os.listdir(self.d):
            kind, k = LT.classify_name(nm, BASE)
            if kind == 'stray':
                strays.append(nm)
                continue
            with open(os.path.join(self.d, nm), 'rb') as f:
                t = f.read().decode('latin-1')
            if kind == 'active':
                active = t
            else:
                backups.append((k, t))
        return LT.Snapshot(active, tuple(sorted(backups)), tuple(sorted(strays)))

    # -- bookkeeping
    def _case(self, events):
        c = {k: self.cfg[k] for k in ('fam', 'rot', 'max_bytes', 'backup_count', 'tf', 'nl', 'pre', 'dtype', 'seed')}
        c['events'] = list(events)
        return c

    def _judge(self, clause, prob, where, events, nontrivial, extra=''):
        c = self.clauses.setdefault(clause, [0, 0])
        c[0] += 1
        if nontrivial:
            c[1] += 1
        if prob is None:
            return
        shape, text = prob
        cfg = self.cfg
        fp = '%s|fam=%s|pre=%d|tf=%d|shape=%s' % (clause, cfg['fam'], cfg['pre'], cfg['tf'], shape)
        detail = 'shape=%s tf=%s %s [after event %d = %r%s]' % (
            shape, 'on' if cfg['tf'] else 'off', text, len(events) - 1, events[-1], extra)
        rec = (len(events), clause, detail, where, self._case(events), fp)
        self.all_fail.append((clause, detail, where))
        key = (clause, where, fp)
        if key not in self.viol or self.viol[key][0] > rec[0]:
            self.viol[key] = rec

    def _initial(self):
        cfg = self.cfg
        ref = LT.LogTail(cfg['max_bytes'] if cfg['rot'] != 'none' else 0,
                         cfg['backup_count'] if cfg['rot'] != 'none' else 0,
                         initial=SEED_TEXT if cfg['seed'] else '')
        return State(ref, self._observe(), 0, 0, bool(cfg['seed']))

    # -- one case
    def run_case(self, seq):
        cfg = self.cfg
        full = self.prelude + list(seq)
        c = 0
        if self.share and self.prev is not None:
            while c < len(full) - 1 and c < len(self.prev) and full[c] == self.prev[c]:
                c += 1
        self.prev = full
        self._fresh_world()
        if not self.stack:
            self.stack.append(self._initial())
        c = min(c, len(self.stack) - 1)
        del self.stack[c + 1:]
        for i in range(c):
            self._exec(i, full[i], self.stack[i].off)
        self.cases += 1
        if c and self.cases % SPOT == 0:
            self.info['determinism_spot_checks'] += 1
            if self._observe() != self.stack[c].snap:
                self._judge('HARNESS.nondeterminism', ('replayed_prefix_differs', 'prefix %r' % (full[:c],)),
                            'harness', full[:c], True)
        for i in range(c, len(full)):
            st = self.stack[i]
            ev = full[i]
            exc = self._exec(i, ev, st.off)
            ref = st.ref.copy()
            off, raw_len = st.off, None
            if isinstance(ev, int):
                _data, payload, prefix = self._concrete(i, ev, st.off)
                ref.write(payload, prefix)
                off += ev
                raw_len = ev
            snap = self._observe()
            rolled = snap.backups != st.snap.backups
            new = State(ref, snap, off, st.rolls + (1 if rolled else 0), st.reopened or not isinstance(ev, int))
            if rolled:
                self.info['rollovers_observed'] += 1
            self.info['events_judged'] += 1
            self._judge_step(full[:i + 1], ev, st, new, exc, raw_len, rolled)
            self.stack.append(new)
        last = self.stack[-1]
        if (last.rolls if cfg['rot'] == 'on' else last.reopened):
            self.nontrivial += 1
        self.outcomes.add('%s/%d/%d/%d/%s/%s/%d' % (
            cfg['fam'], cfg['max_bytes'], cfg['backup_count'], cfg['tf'],
            '-'.join('%d:%d' % (k, len(t)) for k, t in last.snap.backups),
            len(last.snap.active or ''), last.rolls))
        if len(self.samples) < 2:
            self.samples.append({'case': self._case(full),
                                 'final_files': dict([('active', last.snap.active)] +
                                                     [('.%d' % k, t) for k, t in last.snap.backups]),
                                 'everything_written': last.ref.text, 'rollovers': last.rolls})

    def _judge_step(self, events, ev, before, after, exc, raw_len, rolled):
        cfg = self.cfg
        ref, snap = after.ref, after.snap
        is_write = isinstance(ev, int)
        extra = ('; the call raised ' + exc) if exc else ''
        unchanged = None
        if not is_write:
            b = before.snap
            if (snap.backups, snap.strays, snap.active or '') != (b.backups, b.strays, b.active or ''):
                unchanged = ('reopen_changed_files', 'files before %r, after %r' % (
                    [len(t) for _n, t in LT.oldest_first(b)], [len(t) for _n, t in LT.oldest_first(snap)]))
        if exc:
            unchanged = ('exception_%s' % exc.split(':')[0], 'the call raised ' + exc)
        if cfg['rot'] == 'on':
            # contiguous tail (+ nothing dropped early, nothing changed by a reopen, no exception)
            prob = unchanged or ref.contiguous_tail(snap)
            if prob is None and is_write:
                prob = ref.premature_drop(before.snap, len(before.ref.text), snap)
            where = W_OPEN if not is_write else (W_CALL if exc and not rolled else W_ROLL)
            self._judge('C20.contiguous_tail', prob, where, events, bool(snap.backups), extra)
            # backup bound
            self._judge('C20.backup_bound', ref.backup_bound(snap), W_ROLL, events,
                        rolled and len(before.snap.backups) >= cfg['backup_count'], extra)
            # below max: only while every record was shorter than max_bytes
            if ref.all_small:
                needed = is_write and len(before.snap.active or '') + len(ref.last) >= cfg['max_bytes']
                self._judge('C20.below_max', ref.below_max(snap, before.snap, raw_len), W_SHOULD, events,
                            needed, extra)
            if cfg['tf']:
                self._judge('C20.prefix_every_line', ref.prefix_every_line(snap), W_WRITE, events,
                            is_write, extra)
        else:
            prob = unchanged or ref.plain(snap)
            if cfg['tf']:
                prob = prob or ref.prefix_every_line(snap, skip_initial=True)
                self._judge('C20.prefix_every_line', prob, W_WRITE, events, is_write, extra)
            else:
                self._judge('C20.plain_is_append_only', prob, W_OPEN if not is_write else W_WRITE, events,
                            after.reopened, extra)

    def close(self):
        if self.stream is not None:
            try:
                self.stream.close()
            except Exception:
                pass


def _scratch_root():
    """TMPDIR if the caller set one; else the tmpfs at /dev/shm when there is one (16 workers doing
    create/rename/unlink on one journalled disk filesystem spend most of their time contending in the
    kernel: ~900 us of CPU per case against ~300 us on tmpfs); else tempfile's default."""
    if os.environ.get('TMPDIR'):
        return None
    shm = '/dev/shm'
    if os.path.isdir(shm) and os.access(shm, os.W_OK | os.X_OK):
        return shm
    return None


def _scratch():
    d = tempfile.mkdtemp(prefix='c20-', dir=_scratch_root())
    real = os.path.realpath(d)
    for forbidden in ('/repo', '/verif'):
        if real == forbidden or real.startswith(forbidden + os.sep):
            shutil.rmtree(d, ignore_errors=True)
            raise RuntimeError('scratch directory %s is inside %s; set TMPDIR elsewhere' % (real, forbidden))
    return d


def run_shard(shard, tier):
    r = EnumResult()
    if 'fault' in shard:
        for case in _fault_cases(shard['fault'][0], shard['fault'][1], tier):
            r.cases += 1
            run_fault_case(r, case)
            if len(r.samples) < 1:
                r.samples.append(case)
        return r
    cfg = shard['cfg']
    d = _scratch()
    eng = Engine(d, cfg)
    try:
        for seq in _gen(cfg, list(shard['prefix'])):
            eng.run_case(seq)
    finally:
        eng.close()
        shutil.rmtree(d, ignore_errors=True)
    r.cases = eng.cases
    r.nontrivial_count = eng.nontrivial       # cases are pairwise distinct by construction
    r.clauses = eng.clauses
    r.outcomes = eng.outcomes
    r.samples = eng.samples
    r.info = dict(eng.info)
    for _k, (_n, clause, detail, where, case, fp) in sorted(eng.viol.items()):
        r.fail(clause, detail, where, case, fp)
    return r


def replay_case(case):
    """Run one recorded case from scratch, judging every step; -> [(clause, detail, where)]."""
    if case.get('fam') == 'X':
        r = EnumResult()
        run_fault_case(r, case)
        return [(v['clause'], v['detail'], v['where']) for v in r.violations]
    cfg = {k: case[k] for k in ('fam', 'rot', 'max_bytes', 'backup_count', 'tf', 'nl', 'pre', 'dtype', 'seed')}
    cfg.update({'sizes': [], 'specials': [], 'nspecial': None, 'L': len(case['events'])})
    cfg['pre'] = 0                      # the recorded event list already contains the earlier instance's writes
    d = _scratch()
    eng = Engine(d, cfg, share=False)
    eng.cfg = dict(cfg, pre=case['pre'])   # keep the flag for fingerprints / details
    try:
        eng.run_case(list(case['events']))
    finally:
        eng.close()
        shutil.rmtree(d, ignore_errors=True)
    seen, out = set(), []
    for t in eng.all_fail:
        if t not in seen:
            seen.add(t)
            out.append(t)
    return out


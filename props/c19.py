"""C19 — Watchers start in priority order, paced by the warmup delays."""
import itertools

from props.common import *      # noqa: F401,F403
from props.common import Window, finish, G
from vt.clock import CLOCK
from vt.explorer import Result, digest
from vt.runner import Scenario
from vt.simkernel import PID_BASE
from vt.world import World, WSpec, Abort

ID = 'C19'
KIND = 'explorer'
LEVEL = 'model_checking'
BUDGET = {'quick': 900, 'thorough': 10800}
RULE = ('three watchers with every assignment of priorities from {0,1,2} (27, ties included), numprocesses (2,1,2), three '
        'per-watcher warmup combinations, global warmup 0/1, autostart on/off, triggers {daemon start, start all, restart *, '
        'start [ab], restart [ab]}; on a sub-grid one worker death at every loop-iteration boundary and before every kernel '
        'call of the start sequence; oracle over the simulated kernel\'s spawn log (virtual timestamps)')
ASSUMPTIONS = ['tolerance 1e-4 s on spacing', 'the start sequence is the interval during which the trigger holds the exclusive slot']

TRIGGERS = ['boot', 'start-all', 'restart-glob-all', 'start-glob-two', 'restart-glob-two']
WCOMBOS = [(0.0, 0.0, 0.0), (0.25, 0.0, 0.5), (0.5, 0.25, 0.25)]
NS = (3, 1, 2)
TOL = 1e-4


def scenarios(tier):
    out = []
    for pr in itertools.product((0, 1, 2), repeat=3):
        for wc in range(len(WCOMBOS)):
            for gw in (0, 1):
                for auto_c in (True, False):
                    for trig in TRIGGERS:
                        if tier == 'quick' and (wc == 2 and gw == 1):
                            continue
                        out.append(Scenario('prio', pr=list(pr), wc=wc, gw=gw, auto_c=auto_c, trig=trig, E=0, nodet=True))
    sub = [(2, 1, 0), (0, 1, 2), (1, 1, 0), (0, 0, 0), (1, 2, 1), (2, 0, 2)]
    for pr in (sub[:3] if tier == 'quick' else sub):
        for trig in (('boot', 'restart-glob-all') if tier == 'quick' else TRIGGERS):
            for gw in ((1,) if tier == 'quick' else (0, 1)):
                out.append(Scenario('prio', pr=list(pr), wc=1, gw=gw, auto_c=True, trig=trig, E=1))
    # the start of one watcher is called off after its workers were spawned (after_start refuses): the next watcher still
    # keeps its distance from that watcher's last spawn
    for pr in ([2, 1, 0], [1, 2, 0], [0, 1, 2]):
        for trig in (('boot', 'start-all') if tier == 'quick' else TRIGGERS):
            for who in ('a', 'b'):
                out.append(Scenario('prio', pr=list(pr), wc=1, gw=1, auto_c=True, trig=trig, E=0, nodet=True, fail=who))
    # `start` of everything while the first watcher (respawn off) is running two workers short: its top-up is paced too
    # and the next watcher waits for it
    for pr in ([2, 1, 0], [1, 2, 0]):
        for gw in (0, 1):
            out.append(Scenario('prio', pr=list(pr), wc=1, gw=gw, auto_c=True, trig='start-glob-two', E=0, nodet=True, short=True))
    # a dense periodic check (0.2 s < the warmup delays): the respawn of a worker that died during the sequence is attempted
    # as soon as the sequence lets go of the exclusive slot - it must still keep its watcher's spacing
    for pr in (sub[:2] if tier == 'quick' else sub):
        for trig in (('boot',) if tier == 'quick' else ('boot', 'restart-glob-all', 'start-all')):
            for wc in (1, 2):
                out.append(Scenario('prio', pr=list(pr), wc=wc, gw=0, auto_c=True, trig=trig, E=1, tick=0.2))
    return out


def bound(tier, scn):
    return scn.E


def bounds(tier):
    return {'watchers': 3, 'priorities': '{0,1,2}^3', 'numprocesses': NS, 'spawn_duration_of_a': 0.03, 'warmup_combos': WCOMBOS, 'global_warmup': [0, 1],
            'triggers': TRIGGERS, 'deaths': '<=1 on the sub-grid'}


def run(scn, ch):
    res = Result()
    names = ['a', 'b', 'c']
    ws = WCOMBOS[scn.wc]
    specs = []
    for i, nm in enumerate(names):
        kw = dict(numprocesses=NS[i], warmup_delay=ws[i], priority=scn.pr[i], graceful_timeout=0.1)
        if nm == 'c' and not scn.auto_c:
            kw['autostart'] = False
        if nm == 'a':
            # process creation takes time: an after_spawn hook that needs 30 ms (the warmup pacing subtracts it)
            def slow_hook(watcher, arbiter, hook_name, **kw2):
                import time
                time.sleep(0.03)
                return True
            kw['hooks'] = {'after_spawn': (slow_hook, False)}
        if scn.p.get('short') and nm == 'a':
            kw['respawn'] = False
        if scn.p.get('fail') == nm:
            def refuse(watcher, arbiter, hook_name, **kw2):
                return False
            kw.setdefault('hooks', {})['after_start'] = (refuse, False)
        specs.append(WSpec(nm, **kw))
    tick = scn.p.get('tick')
    world = World(ch, specs, arbiter_kw={'warmup_delay': scn.gw}, **({'check_delay': tick} if tick else {}))
    win = Window(world)
    prio = dict(zip(names, scn.pr))
    wdel = dict(zip(names, ws))
    try:
        trig = scn.trig
        t0 = CLOCK.now
        n0 = 0
        win.open = scn.E > 0 and trig == 'boot'
        world.boot()
        if trig == 'boot':
            world.run(until=lambda w: w.boot_future.done() and w.slot() is None, horizon=12, menu=win.menu)
            win.open = False
            involved = [n for n in names if not (n == 'c' and not scn.auto_c)]
            if not scn.auto_c:
                wc = world.watcher('c')
                res.check('C19.autostart_off_untouched', not world.procs_of('c') and wc.status() == 'stopped',
                          lambda: 'autostart=False watcher c was started by the daemon start: %d spawns, status %s'
                          % (len(world.procs_of('c')), wc.status()), where='arbiter._start_watchers')
        else:
            world.run(until=lambda w: w.boot_future.done() and w.slot() is None, horizon=12)
            world.run(horizon=0.3)
            if trig.startswith('start'):
                if scn.p.get('short'):
                    # a stays up, two workers short (it does not respawn); only b is stopped
                    for p_ in world.procs_of('a', [RUNNING])[:2]:
                        world.die(p_.pid, EXIT1)
                    world.settle(1)
                    world.request('stop', name='b')
                else:
                    world.request('stop', **({} if trig == 'start-all' else {'name': '[ab]'}))
                world.run(until=lambda w: w.slot() is None, horizon=5)
            n0 = len(world.kernel.spawn_log)
            t0 = CLOCK.now
            win.open = scn.E > 0
            if trig == 'start-all':
                rq = world.request('start')
                involved = [n for n in names if not (n == 'c' and not scn.auto_c)]
            elif trig == 'restart-glob-all':
                rq = world.request('restart', name='*')
                involved = [n for n in names if not (n == 'c' and not scn.auto_c)]
            elif trig == 'start-glob-two':
                rq = world.request('start', name='[ab]')
                involved = ['a', 'b']
            else:
                rq = world.request('restart', name='[ab]')
                involved = ['a', 'b']
            res.check('C19.accepted', rq.ok(), lambda: '%s refused: %r' % (trig, rq.reply()), where='controller')
            world.run(until=lambda w: w.slot() is None, horizon=15, menu=win.menu)
            win.open = False
        spawns = [(p.spawn_time, p.watcher) for p in world.kernel.spawn_log[n0:]]
        deaths = [t for t in world.trace if t[1].startswith('inject')]
        _oracle(res, scn, spawns, involved, prio, wdel, deaths)
        if scn.E > 0:
            # what the sequence leaves behind: the replacement of a worker that died during it is spawned by the next
            # periodic check that gets the slot; per watcher, consecutive spawns stay warmup_delay apart across that boundary
            world.run(horizon=2 * world.check_delay + 0.6)
            later = [(p.spawn_time, p.watcher) for p in world.kernel.spawn_log[n0:]]
            for nm in names:
                ts = [t for t, w_ in later if w_ == nm]
                for i in range(len(ts) - 1):
                    res.check('C19.spacing_watcher', ts[i + 1] - ts[i] >= wdel[nm] - TOL,
                              lambda: 'consecutive spawns of %s only %.3fs apart (warmup_delay %.2f), the later one after the '
                              'start sequence had ended: %s' % (nm, ts[i + 1] - ts[i], wdel[nm], [(round(t, 3), w_) for t, w_ in later]),
                              where='watcher.spawn_processes/after-the-sequence', nontrivial=wdel[nm] > 0 and len(later) > len(spawns))
        res.outcome = digest([[(round(t - t0, 3), w) for t, w in spawns]])
        return finish(world, res)
    except Abort as e:
        return finish(world, res, aborted=str(e))


def _oracle(res, scn, spawns, involved, prio, wdel, deaths):
    seq = [w for _, w in spawns]
    # group consecutive spawns by watcher
    groups = []
    for t, w in spawns:
        if groups and groups[-1][0] == w:
            groups[-1][1].append(t)
        else:
            groups.append((w, [t]))
    order = [g[0] for g in groups]
    desc = lambda: 'trigger=%s priorities=%s spawns=%s' % (scn.trig, prio, [(round(t, 3), w) for t, w in spawns])   # noqa
    res.check('C19.no_interleave', len(order) == len(set(order)),
              lambda: 'a watcher resumed spawning after another one had begun: ' + desc(), where='arbiter._start_watchers',
              nontrivial=len(order) > 1)
    ps = [prio[w] for w in order]
    res.check('C19.priority_order', all(ps[i] >= ps[i + 1] for i in range(len(ps) - 1)),
              lambda: 'watchers started in priority order %s (must be non-increasing): ' % ps + desc(),
              where='arbiter.iter_watchers', nontrivial=len(set(prio[w] for w in involved)) > 1)
    if not deaths:
        res.check('C19.all_started', sorted(set(order)) == sorted(involved),
                  lambda: 'started %s, expected %s: ' % (sorted(set(order)), sorted(involved)) + desc(),
                  where='arbiter._start_watchers')
        res.check('C19.counts', all(len(ts) == (2 if (w == 'a' and scn.p.get('short')) else NS['abc'.index(w)]) for w, ts in groups),
                  lambda: 'spawn counts per watcher wrong: ' + desc(), where='watcher.spawn_processes')
    for w, ts in groups:
        for i in range(len(ts) - 1):
            res.check('C19.spacing_watcher', ts[i + 1] - ts[i] >= wdel[w] - TOL,
                      lambda: 'consecutive spawns of %s only %.3fs apart (warmup_delay %.2f): ' % (w, ts[i + 1] - ts[i], wdel[w]) + desc(),
                      where='watcher.spawn_processes', nontrivial=wdel[w] > 0)
    for i in range(len(groups) - 1):
        gap = groups[i + 1][1][0] - groups[i][1][-1]
        res.check('C19.spacing_global', gap >= scn.gw - TOL,
                  lambda: 'watcher %s began %.3fs after the last spawn of %s (global warmup_delay %s): '
                  % (groups[i + 1][0], gap, groups[i][0], scn.gw) + desc(), where='arbiter._start_watchers',
                  nontrivial=scn.gw > 0)

"""C07 — Managed sockets reach every worker generation and are never rebound."""
import os
import re
import socket
import stat

from props.common import *      # noqa: F401,F403
from props.common import pattern, G, Scratch
from props.hist import run_history, live
from vt.clock import CLOCK
from vt.events import Req, EXIT1
from vt.explorer import Result
from vt.runner import Scenario
from vt.simkernel import PID_BASE
from vt.world import World, WSpec

ID = 'C07'
KIND = 'explorer'
LEVEL = 'model_checking'
GRAPH = {'quick': 2, 'thorough': 3}
BUDGET = {'quick': 900, 'thorough': 10800}
RULE = ('daemon sockets are REAL CircusSockets (inet on 127.0.0.1 port 0, unix in a scratch directory, one so_reuseport set) inside the '
        'explorer process, workers are simulated; breadth-first search over canonical quiescent states with bursts of '
        '<= 1 event from {worker death, incr, decr, restart, reload, reload sequential, stop, start} at every loop-iteration '
        'boundary; at EVERY process creation the descriptor substituted for $(circus.sockets.NAME) is inspected (open, same inode '
        'as the socket bound at start-up, inheritable, listening, close_fds), at every quiescent point every managed socket '
        '(inode, address, listening, connect succeeds)')
ASSUMPTIONS = ['fork/exec inheritance rule (child gets fd f iff f<3 or (not close_fds and f is inheritable)) is part of the '
               'environment model and is checked against the real kernel by the conformance matrix']

SETS = {'inet': [('web', 'inet', False)], 'unix': [('ux', 'unix', False)],
        'inet+unix': [('web', 'inet', False), ('ux', 'unix', False)],
        'inet+reuse': [('web', 'inet', False), ('rp', 'inet', True)]}


def scenarios(tier):
    out = []
    for sset in (('inet+unix', 'inet+reuse') if tier == 'quick' else SETS):
        for ref in ('cmd', 'args'):
            out.append(Scenario('sock', sset=sset, tier=tier, ref=ref))
        out.append(Scenario('sock', sset=sset, tier=tier, ref='cmd', stdin=True))
    # a watcher WITHOUT use_sockets that gets a managed socket on its standard input (inetd style): nothing else comes along
    out.append(Scenario('sock', sset='inet+unix', tier=tier, ref='cmd', stdin_plain=True))
    # hooks around signals and stops that raise (their failures are ignored by default): what they leave behind must not
    # change what the next generation of workers inherits
    out.append(Scenario('sock', sset='inet+unix', tier=tier, ref='cmd', hooks='raise'))
    # the daemon is built from a configuration file; one event is a reloadconfig of a file that adds a socket section
    # clashing with a managed one (same unix path / same port): refused - and the managed sockets are still there
    out.append(Scenario('sock', sset='inet+unix', tier=tier, ref='cmd', cfgfile=True))
    return out


def plan(tier, gen):
    return (1, 0) if tier == 'quick' or gen > 1 else (1, 1)


def bound(tier, scn, gen=1):
    return 1 if tier == 'quick' or gen > 1 else 2


def bounds(tier):
    return {'socket_sets': list(SETS) if tier != 'quick' else ['inet+unix', 'inet+reuse'], 'generations': GRAPH[tier],
            'watchers': 'u (use_sockets, refers to every socket of the set, n=2), p (no use_sockets, n=1)',
            'burst': '1 event (quick); thorough: request + death in generation 1, 1 event in generations 2-3'}


class ClashReload(object):
    """Rewrite the configuration file with one more socket section that collides with the managed socket `name`, then
    send reloadconfig (which cannot bind it)."""

    def __init__(self, name):
        self.name = name
        self.label = 'reloadconfig(+socket clashing with %s)' % name
        self.request = None

    def apply(self, world):
        from props.common import write_ini
        socks = list(world.cfg_sockets)
        opts = dict([x for x in socks if x[0] == self.name][0][1])
        if 'port' in opts:
            opts['port'] = world.arbiter.sockets[self.name].getsockname()[1]
        write_ini(world.config_file, world.cfg_watchers, sockets=socks + [('dup', opts)])
        self.request = world.request('reloadconfig')
        world.last_request = self.request
        return self.request


class EditReload(object):
    """Rewrite the configuration file - an option of the use_sockets watcher u is edited (the watcher is re-created) and a
    second use_sockets watcher v referring to the same sockets is added - then send reloadconfig: the first workers of both
    are 'first ones' too."""
    label = 'reloadconfig(u edited, +v)'

    def __init__(self):
        self.request = None

    def apply(self, world):
        from props.common import write_ini
        world.cfg_edits = getattr(world, 'cfg_edits', 0) + 1
        ws = []
        for n, o in world.cfg_watchers:
            o = dict(o)
            if n == 'u':
                o['max_retry'] = 5 + world.cfg_edits
                ws.append(('v', dict(o, numprocesses=1)))
            ws.append((n, o))
        write_ini(world.config_file, ws, sockets=list(world.cfg_sockets))
        self.request = world.request('reloadconfig')
        world.last_request = self.request
        return self.request


def alphabet(world):
    evs = []
    if getattr(world, 'cfg_sockets', None):
        evs += [ClashReload(n) for n, _ in world.cfg_sockets]
        evs.append(EditReload())
    for n in ('u', 'p'):
        if world.watcher(n) is None:
            continue
        evs += [Req('incr', label='incr(%s)' % n, name=n), Req('decr', label='decr(%s)' % n, name=n),
                Req('restart', label='restart(%s)' % n, name=n), Req('reload', label='reload(%s)' % n, name=n),
                Req('reload', label='reload-seq(%s)' % n, name=n, sequential=True),
                Req('stop', label='stop(%s)' % n, name=n), Req('start', label='start(%s)' % n, name=n)]
    return evs


def fd_table():
    """fd -> (inheritable, inode, is listening socket) for every open socket descriptor of this process."""
    out = {}
    for name in os.listdir('/proc/self/fd'):
        try:
            fd = int(name)
            st = os.fstat(fd)
        except (ValueError, OSError):
            continue
        if not stat.S_ISSOCK(st.st_mode):
            continue
        try:
            s = socket.socket(fileno=os.dup(fd))
            try:
                listening = s.getsockopt(socket.SOL_SOCKET, socket.SO_ACCEPTCONN) == 1
            finally:
                s.close()
            out[fd] = (os.get_inheritable(fd), (st.st_dev, st.st_ino), listening)
        except OSError:
            continue
    return out


def run(scn, ch):
    res = Result()
    tier = scn.tier
    scratch = Scratch()
    from circus.sockets import CircusSocket

    def make_world(ch):
        socks, refs = [], []
        for name, kind, reuse in SETS[scn.sset]:
            cfg = {'name': name, 'so_reuseport': 'true' if reuse else 'false'}
            if kind == 'inet':
                cfg.update(host='127.0.0.1', port='0')
            else:
                cfg.update(path=scratch.path(name + '.sock'), family='AF_UNIX')
            socks.append(CircusSocket.load_from_config(cfg))
            refs.append('--%s $(circus.sockets.%s)' % (name, name))
        if scn.p.get('ref', 'cmd') == 'cmd':
            cmd, args = 'worker ' + ' '.join(refs), None
        else:
            cmd, args = 'worker', ' '.join(refs)          # the references live in `args`, not in `cmd`
        extra = {'stdin_socket': SETS[scn.sset][0][0]} if scn.p.get('stdin') else {}
        if scn.p.get('cfgfile'):
            from props.common import write_ini
            ini = scratch.path('c.ini')
            sock_sections = []
            for name, kind, reuse in SETS[scn.sset]:
                if kind == 'inet':
                    sock_sections.append((name, {'host': '127.0.0.1', 'port': 0}))
                else:
                    sock_sections.append((name, {'path': scratch.path(name + '.sock')}))
            ws = [('u', {'cmd': cmd, 'numprocesses': 2, 'use_sockets': 'True', 'graceful_timeout': 0.1}),
                  ('p', {'cmd': 'plain', 'numprocesses': 1, 'graceful_timeout': 0.1})]
            write_ini(ini, ws, sockets=sock_sections)
            for sk in socks:
                sk.close()
            world = World(ch, [WSpec('u'), WSpec('p')], config_file=ini)
            world.cfg_sockets, world.cfg_watchers = sock_sections, ws
            world.kernel.fd_snapshot = fd_table
            world.kernel.probe_preexec = True
            world.judged_spawns = 0
            return world
        if scn.p.get('hooks') == 'raise':
            def boom(watcher, arbiter, hook_name, **kw):
                raise RuntimeError('hook backend is down')
            extra['hooks'] = {h: (boom, False) for h in ('before_signal', 'after_signal', 'before_stop', 'after_stop')}
        world = World(ch, [WSpec('u', numprocesses=2, cmd=cmd, args=args, use_sockets=True, graceful_timeout=0.1, **extra),
                           WSpec('p', numprocesses=1, cmd='plain', graceful_timeout=0.1,
                                 **({'stdin_socket': SETS[scn.sset][0][0]} if scn.p.get('stdin_plain') else {}))], sockets=socks)
        world.kernel.fd_snapshot = fd_table
        world.kernel.probe_preexec = True      # a real forked child runs Process.spawn's preexec function
        world.judged_spawns = 0
        return world

    def budgets(g):
        r, d = plan(tier, g)
        return {'req': r, 'die': d} if not (tier == 'quick') else {'req': 1, 'die': 1}

    def on_quiescent(world, res, gen, win):
        arb = world.arbiter
        if not hasattr(world, 'bound'):
            # recorded once, right after the first settle: what the arbiter bound at start-up
            world.bound = {}
        for name, s in arb.sockets.items():
            if name not in world.bound:
                try:
                    st = os.fstat(s.fileno())
                    world.bound[name] = ((st.st_dev, st.st_ino), s.getsockname() if not s.so_reuseport or True else None)
                except OSError:
                    world.bound[name] = None
        # --- every spawn since the last judgement
        for p in world.kernel.spawn_log[world.judged_spawns:]:
            argv = p.argv if isinstance(p.argv, list) else [p.argv]
            # what the child process gets (fork/exec rule, checked by the conformance matrix): descriptors 0-2, every
            # inheritable descriptor unless close_fds, and pass_fds
            table = p.inherit_fds or {}

            child = p.child_fds if isinstance(p.child_fds, dict) and 'error' not in p.child_fds else None
            if p.child_fds is not None and child is None:
                res.check('C07.preexec_runs', False, 'the pre-exec function failed in the child: %s' % p.child_fds,
                          where='process.spawn.preexec')

            def reaches(fd):
                if child is not None:
                    # the descriptor table observed in a real forked child after the pre-exec function
                    return fd in child
                ent = table.get(fd)
                return fd in p.pass_fds or (not p.close_fds and ent is not None and ent[0])
            if p.watcher in ('u', 'v'):
                for name, kind, reuse in SETS[scn.sset]:
                    try:
                        fd = int(argv[argv.index('--' + name) + 1])
                    except (ValueError, IndexError):
                        res.check('C07.fd_substituted', False, 'worker %d argv %r has no descriptor for socket %s'
                                  % (p.pid - PID_BASE, argv, name), where='process.format_args')
                        continue
                    ent = (p.inherit_fds or {}).get(fd)
                    # so_reuseport sockets are excepted by the statement (bound per worker by design): only "open" is required
                    res.check('C07.fd_open_listening', ent is not None and (ent[2] or reuse),
                              lambda: 'worker %d got descriptor %d for %s which is %s at process creation'
                              % (p.pid - PID_BASE, fd, name, 'not open' if ent is None else 'not a listening socket'),
                              where='process._get_sockets_fds')
                    if ent is None:
                        continue
                    res.check('C07.fd_reaches_worker', reaches(fd),
                              lambda: 'descriptor %d (%s) named in the command line of worker %d does not survive process creation '
                              '(close_fds=%r, inheritable=%r, pass_fds=%r)' % (fd, name, p.pid - PID_BASE, p.close_fds, ent[0], p.pass_fds),
                              where='process.spawn')
                    if child is not None and fd in child and not reuse and world.bound.get(name):
                        res.check('C07.same_socket_in_child', tuple(child[fd][:2]) == tuple(world.bound[name][0]) and child[fd][3],
                                  lambda: 'in the child, descriptor %d (named for %s) is %s, not the listening socket bound at start-up %s'
                                  % (fd, name, child[fd], world.bound[name][0]), where='process.spawn.preexec')
                    if not reuse and world.bound.get(name):
                        res.check('C07.same_socket', ent[1] == world.bound[name][0],
                                  lambda: 'worker %d got a different socket for %s than the one bound at start-up (inode %s vs %s)'
                                  % (p.pid - PID_BASE, name, ent[1], world.bound[name][0]), where='process._get_sockets_fds',
                                  nontrivial=gen > 1 or world.judged_spawns > 0)
            else:
                leaked = sorted(fd for fd in (child if child is not None else table) if fd > 2 and reaches(fd))
                res.check('C07.no_fd_without_use_sockets', not leaked,
                          lambda: 'worker %d of a watcher without use_sockets inherits daemon descriptors %s (close_fds=%r, '
                          'pass_fds=%r)' % (p.pid - PID_BASE, leaked, p.close_fds, p.pass_fds), where='process.spawn')
        world.judged_spawns = len(world.kernel.spawn_log)
        # --- the daemon's sockets themselves
        for name, kind, reuse in SETS[scn.sset]:
            s = arb.sockets.get(name)
            if reuse:
                continue
            ok = s is not None and s.fileno() >= 0
            res.check('C07.socket_kept_open', ok, lambda: 'managed socket %s is closed/missing' % name, where='arbiter.sockets')
            if not ok:
                continue
            st = os.fstat(s.fileno())
            res.check('C07.never_rebound', world.bound.get(name) and (st.st_dev, st.st_ino) == world.bound[name][0] and
                      s.getsockname() == world.bound[name][1],
                      lambda: 'managed socket %s was replaced or rebound: %s -> %s' % (name, world.bound.get(name),
                                                                                   ((st.st_dev, st.st_ino), s.getsockname())),
                      where='arbiter.sockets', nontrivial=bool(win.applied))
            res.check('C07.listening', s.getsockopt(socket.SOL_SOCKET, socket.SO_ACCEPTCONN) == 1,
                      lambda: 'managed socket %s is no longer listening' % name, where='arbiter.sockets')
            c = socket.socket(s.family, socket.SOCK_STREAM)
            c.settimeout(0.5)
            try:
                c.connect(s.getsockname())
                connected = True
            except OSError as e:
                connected = repr(e)
            finally:
                c.close()
            res.check('C07.connectable', connected is True, lambda: 'connect() to %s failed: %s' % (name, connected),
                      where='arbiter.sockets')

    try:
        return run_history(scn, ch, make_world, alphabet, budgets, on_quiescent, res=res, settle_checks=1,
                           statuses=(EXIT1,), kpoints=False)
    finally:
        scratch.close()

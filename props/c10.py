"""C10 — State-changing operations are serialized; the exclusive slot is always freed."""
import os

from props.common import *      # noqa: F401,F403
from props.common import pattern, Window, finish, G, write_ini, Scratch, nth_hook
from vt.canon import canon
from vt.clock import CLOCK
from vt.events import Req
from vt.explorer import Result, digest
from vt.runner import Scenario
from vt.simkernel import slow, OBEDIENT
from vt.world import World, WSpec, Abort

ID = 'C10'
KIND = 'explorer'
LEVEL = 'model_checking'
BUDGET = {'quick': 900, 'thorough': 10800}
RULE = ('first operation X in {start, stop, restart, reload, incr, decr, set, add+start, rm, reloadconfig, quit, '
        'periodic check} x outcome mode {succeeds, raises synchronously, fails asynchronously}; a second '
        'state-changing request Y from the same set injected at EVERY loop-iteration boundary while X is in flight '
        '(thorough: two of them, then a third after X ended); after X: probe requests; an outcome is the tuple of replies '
        'and the canonical state digest')
ASSUMPTIONS = ['"no effect" of a refused request is judged on the canonical state digest, the kernel spawn/signal logs, the '
               'PUB frames and the number of pending loop callbacks, immediately before and after the refused request is handled '
               '(a refusal is synchronous), which is equivalent to the differential run without Y']

XS = ['start', 'stop', 'restart', 'reload', 'incr', 'decr', 'set', 'add', 'rm', 'reloadconfig', 'quit', 'check',
      'stop-all', 'start-all', 'restart-glob', 'stop-glob-two', 'start-glob-two', 'restart-glob-two']
SYNC_FAIL = ['set-singleton', 'add-bad-hook', 'add-empty-name']
ASYNC_FAIL = ['incr-bad-nb', 'reloadconfig-nofile', 'start-popen-runtimeerror', 'incr-popen-runtimeerror', 'restart-popen-runtimeerror',
              'check-popen-runtimeerror', 'start-exec-fault', 'start-hook-raise', 'reloadconfig-popen-runtimeerror',
              'check-first-watcher-fails']


def scenarios(tier):
    out = []
    for x in XS:
        out.append(Scenario('xy', x=x, mode='ok'))
    for x in SYNC_FAIL:
        out.append(Scenario('xy', x=x, mode='sync-fail'))
    for x in ASYNC_FAIL:
        out.append(Scenario('xy', x=x, mode='async-fail'))
    return out


def bound(tier, scn):
    return 1 if tier == 'quick' else 2


def bounds(tier):
    return {'X': XS + SYNC_FAIL + ASYNC_FAIL, 'Y_injected_at': 'every loop-iteration boundary while X is in flight',
            'overlapping_requests': 1 if tier == 'quick' else 2, 'watchers': 'a (n=2, warmup 0.25, slow workers), b (n=1)'}


def y_menu(world):
    evs = [Req('start', name='a'), Req('stop', name='a'), Req('restart', name='a'), Req('reload', name='a'),
           Req('incr', name='a'), Req('decr', name='a'),
           Req('set', label='set(a.np=3)', name='a', options={'numprocesses': 3}),
           Req('set', label='set(a.gt)', name='a', options={'graceful_timeout': 0.5}),
           Req('add', label='add(z)', name='z', cmd='sleep 1'),
           Req('add', label='add(z,start)', name='z', cmd='sleep 1', start=True),
           Req('rm', label='rm(b)', name='b'), Req('reloadconfig'), Req('quit'),
           Req('stop', label='stop(all)'), Req('start', label='start(all)'), Req('restart', label='restart(*)', name='*'),
           Req('reload', label='reload(all)'),
           Req('stop', label='stop([ab])', name='[ab]'), Req('start', label='start([ab])', name='[ab]'),
           Req('restart', label='restart([ab])', name='[ab]'),
           # the same kind of request sent as a cast (what plugins send): nobody is answered, and nothing may happen later
           Req('incr', label='incr(a,cast)', name='a', cast=True), Req('stop', label='stop(b,cast)', name='b', cast=True)]
    return [Y(e) for e in evs]


EXCLUSIVE = set(['start', 'stop', 'restart', 'reload', 'incr', 'decr', 'set', 'add', 'rm', 'reloadconfig', 'quit'])


class Y(object):
    """A second request, with the no-effect snapshot taken around its (synchronous) handling."""

    def __init__(self, ev):
        self.ev = ev
        self.label = ev.label

    def apply(self, world):
        before = snapshot(world)
        slot = world.slot()
        self.ev.apply(world)
        after = snapshot(world)
        world.y_records.append((self.ev, slot, before, after))


def snapshot(world):
    k = world.kernel
    return (canon(world), len(k.spawn_log), len(k.signal_log), len(world.ctx.events),
            len(world.loop._ready) + len(world.loop.live_timers()))


def run(scn, ch):
    res = Result()
    scratch = Scratch()
    x, mode = scn.x, scn.mode
    ini = scratch.path('circus.ini')
    wa = dict(cmd='sleep 60', numprocesses=2, warmup_delay=0, graceful_timeout=G, max_retry=1)
    wb = dict(cmd='sleep 60', numprocesses=1, graceful_timeout=G)
    ws = dict(cmd='sleep 60', numprocesses=1, singleton='true', graceful_timeout=G)
    if x in ('start', 'start-popen-runtimeerror', 'start-exec-fault', 'start-hook-raise'):
        wa['autostart'] = 'false'
    if x == 'check-first-watcher-fails':
        wb['numprocesses'] = 2          # (its respawns are paced too: see below)
    write_ini(ini, [('a', wa), ('b', wb), ('s', ws)])
    world = World(ch, [WSpec('a', behaviours=[slow(0.1)]), WSpec('b'), WSpec('s')], config_file=ini)
    world.y_records = []
    win = Window(world, kpoints=False, statuses=(), lmenu=y_menu)
    try:
        world.build()
        wobj = world.arbiter.watchers
        for w in wobj:
            if w.name == 'a':
                w.warmup_delay = 0.25          # float warmup (the ini parser only takes ints)
                if x == 'start-hook-raise':
                    w.hooks['after_start'] = nth_hook(world, 1, 'raise')
            if w.name == 'b' and x == 'check-first-watcher-fails':
                w.warmup_delay = 0.25
        world.boot()
        world.run(until=lambda w: w.boot_future.done(), horizon=5)
        world.run(horizon=0.5)
        # arm faults
        if 'popen-runtimeerror' in x or x == 'start-exec-fault':
            n0 = world.kernel.popen_attempts
            exc = OSError(2, 'ENOENT') if x == 'start-exec-fault' else RuntimeError('boom')
            # fail the second process creation of the operation (the first succeeded, then a warmup sleep)
            world.kernel.popen_fault = lambda k, attempt, info: exc if attempt == n0 + 2 else None
        t_x = CLOCK.now
        win.open = True
        xr = None
        if x in ('start', 'start-popen-runtimeerror', 'start-exec-fault', 'start-hook-raise'):
            xr = world.request('start', name='a')
        elif x == 'stop':
            xr = world.request('stop', name='a')
        elif x in ('restart', 'restart-popen-runtimeerror'):
            xr = world.request('restart', name='a')
        elif x == 'reload':
            xr = world.request('reload', name='a')
        elif x in ('incr', 'incr-popen-runtimeerror'):
            xr = world.request('incr', name='a', nb=2)
        elif x == 'decr':
            xr = world.request('decr', name='a')
        elif x == 'set':
            xr = world.request('set', name='a', options={'numprocesses': 4})
        elif x == 'add':
            xr = world.request('add', name='n', cmd='sleep 9', start=True,
                               options={'numprocesses': 2, 'warmup_delay': 0.25})
        elif x == 'rm':
            xr = world.request('rm', name='a')
        elif x in ('reloadconfig', 'reloadconfig-popen-runtimeerror'):
            wa2 = dict(wa, cmd='sleep 61')
            write_ini(ini, [('a', wa2), ('b', wb), ('s', ws)])
            xr = world.request('reloadconfig')
        elif x == 'quit':
            xr = world.request('quit')
        elif x == 'stop-all':
            xr = world.request('stop')
        elif x == 'start-all':
            world.request('stop', name='a')
            world.run(until=lambda w: w.slot() is None, horizon=3)
            xr = world.request('start')
        elif x == 'restart-glob':
            xr = world.request('restart', name='*')
        elif x == 'stop-glob-two':
            # a pattern that selects two watchers takes the several-watchers path of the command
            xr = world.request('stop', name='[ab]')
        elif x == 'restart-glob-two':
            xr = world.request('restart', name='[ab]')
        elif x == 'start-glob-two':
            world.request('stop', name='[ab]')
            world.run(until=lambda w: w.slot() is None, horizon=3)
            xr = world.request('start', name='[ab]')
        elif x in ('check', 'check-popen-runtimeerror'):
            # a worker of `a` dies: the next periodic check respawns (with the warmup delay) -> check in flight
            p = world.procs_of('a', [RUNNING])
            world.die(p[0].pid, EXIT1)
            world.die(p[1].pid, EXIT1)
            world.run(until=lambda w: w.slot() is not None, horizon=1.2)
        elif x == 'check-first-watcher-fails':
            # every worker of a and b dies; in the next periodic check the management of a (first in the arbiter's order)
            # fails at its first process creation while that of b is between two paced respawns: the check is over when
            # the management of EVERY watcher is
            world.kernel.popen_fault = lambda k, attempt, info: (RuntimeError('boom')
                                                                 if (info.get('watcher') or '') == 'a' else None)
            for p in world.procs_of('a', [RUNNING]) + world.procs_of('b', [RUNNING]):
                world.die(p.pid, EXIT1)
            n_sp = len(world.kernel.spawn_log)
            # (the check has begun when it holds the slot - or, should it have let go of it already, when b has a new worker)
            world.run(until=lambda w: w.slot() is not None or len(w.kernel.spawn_log) > n_sp, horizon=1.2)
        elif x == 'set-singleton':
            xr = world.request('set', name='s', options={'numprocesses': 2})
        elif x == 'incr-bad-nb':
            xr = world.request('incr', name='a', nb='x')
        elif x == 'add-bad-hook':
            xr = world.request('add', name='h', cmd='sleep 1', options={'hooks': {'before_start': 'no.such.module.fn'}})
        elif x == 'add-empty-name':
            xr = world.request('add', name='', cmd='sleep 1')
        elif x == 'reloadconfig-nofile':
            os.unlink(ini)
            xr = world.request('reloadconfig')
        in_flight = world.slot() is not None
        res.ev('C10.x_in_flight_across_iterations', in_flight)
        if mode == 'sync-fail' and xr is not None:
            rep = xr.reply()
            res.check('C10.sync_failure_reported', rep is not None and (rep.get('status') == 'error' or x == 'add-empty-name'),
                      lambda: 'X=%s should fail synchronously, reply %r' % (x, rep), where='controller.dispatch')
        limit = 6.0
        if x == 'quit':
            done = lambda w: w.slot() is None and w.arbiter._stopping       # noqa: E731
        else:
            done = lambda w: w.slot() is None       # noqa: E731
        # the window: from the acceptance of X until the daemon is observably idle again.  "X still running"
        # is judged independently of the slot: a pending sleep of the operation or a worker being stopped.
        t_end = CLOCK.now + limit
        why = 'horizon'
        while CLOCK.now <= t_end:
            busy = bool(world.extra_timers()) or bool(world.stopping_processes())
            if done(world) and not busy:
                why = 'until'
                break
            if busy and world.slot() is None and mode != 'sync-fail':
                res.check('C10.slot_held', False,
                          'X=%s is still running (pending sleeps %s, stopping %s) but the exclusive slot is free'
                          % (x, [round(t - CLOCK.now, 3) for t in world.extra_timers()],
                             [p.pid for p in world.stopping_processes()]), where='util.synchronized')
                break
            elif busy:
                res.ev('C10.slot_held', True)
            if world.step(win.menu) == 'idle':
                why = 'until' if done(world) else 'idle'
                break
        win.open = False
        # judge every Y
        for ev, slot, before, after in world.y_records:
            rq = ev.request
            rep = rq.reply()
            if slot is None:
                res.ev('C10.y_after_x_ended', True)
                continue
            exclusive = ev.command in EXCLUSIVE
            if not exclusive:
                continue
            if ev.props.get('cast'):
                # a cast is not answered; refused means: it has no effect, now (nothing changed, nothing left pending on the
                # loop that was not there before) ...
                res.check('C10.no_effect', before == after,
                          lambda: 'cast Y=%s sent while %r held the slot changed the daemon or left work pending: (state, spawns, '
                          'signals, events, pending callbacks) %s -> %s' % (ev.label, slot, before, after),
                          where='controller.dispatch/cast')
                continue
            res.check('C10.refused', rep is not None and rep.get('status') == 'error',
                      lambda: 'Y=%s sent while %r held the slot was answered %r' % (ev.label, slot, rep),
                      where='util.synchronized', nontrivial=True)
            if rep is not None and rep.get('status') == 'error':
                res.check('C10.conflict_text', 'arbiter is already running' in str(rep.get('reason')) or
                          'restarting' in str(rep.get('reason')) or rep.get('errno') == 3,   # 3 = MESSAGE_ERROR (validation)
                          lambda: 'Y=%s refused with %r instead of the conflict error' % (ev.label, rep.get('reason')),
                          where='controller.dispatch')
                res.check('C10.no_effect', before == after,
                          lambda: 'refused Y=%s changed the daemon: (state, spawns, signals, events, pending callbacks) %s -> %s'
                          % (ev.label, before, after), where='commands.' + ev.command)
            res.check('C10.no_overlap', not (rep is not None and rep.get('status') == 'ok'),
                      lambda: 'Y=%s accepted while %r was in progress' % (ev.label, slot), where='util.synchronized')
        quitting = world.arbiter._stopping
        if why == 'until' and not quitting:
            # the slot must be usable again
            world.run(horizon=0.3)
            if world.slot() is None:
                pr = world.request('incr', name='b')
                rep = pr.reply()
                if world.watcher('b') is not None:
                    res.check('C10.slot_freed', rep is not None and rep.get('status') == 'ok',
                              lambda: 'after X=%s (%s) ended, probe incr answered %r' % (x, mode, rep), where='util.synchronized')
                world.run(until=lambda w: w.slot() is None, horizon=3)
            n_sweeps = world.kernel.counters.get('waitpid(-1)', 0)
            world.run(horizon=2 * world.check_delay + 0.1)
            res.check('C10.check_resumes', world.kernel.counters.get('waitpid(-1)', 0) > n_sweeps,
                      lambda: 'no periodic check ran in two periods after X=%s (%s)' % (x, mode), where='controller.caller')
            pr2 = world.request('set', name='b', options={'graceful_timeout': 0.5})
            res.check('C10.slot_freed', pr2.ok() or world.watcher('b') is None,
                      lambda: 'probe set after X=%s answered %r' % (x, pr2.reply()), where='util.synchronized')
        res.outcome = digest([[(r.command, (r.reply() or {}).get('status')) for r in world.requests], canon(world)])
        return finish(world, res)
    except Abort as e:
        res.check('C10.x_ends', False, 'aborted: %s' % e, where=world.blocked_site())
        return finish(world, res, aborted=str(e))
    finally:
        scratch.close()

"""C05 — The daemon never blocks: every request completes in bounded time."""
import os

from props.common import *      # noqa: F401,F403
from props.common import pattern, Window, finish, G
from vt.clock import CLOCK
from vt.events import Req, EXIT1, KILLED9
from vt.explorer import Result, digest
from vt.runner import Scenario
from vt.simkernel import PID_BASE
from vt.world import World, WSpec, Abort

ID = 'C05'
KIND = 'explorer'
LEVEL = 'model_checking'
BUDGET = {'quick': 900, 'thorough': 10800}
RULE = ('a non-exclusive request K (kill with a per-request graceful_timeout above / below the watcher\'s, kill of one '
        'pid, signal, or none) is put in flight; then ONE state-changing request S from {stop, restart, reload, '
        'reload-seq, decr, incr, rm, quit, set, kill} (waiting on/off) is injected at every loop-iteration boundary, and '
        '(bound 2) one worker death at every loop boundary / kernel call; read-only requests are probed at every '
        'loop-iteration boundary of every execution of the probe scenarios; virtual time spent in time.sleep / blocking '
        'waits is charged per loop iteration')
ASSUMPTIONS = ['budget: 50 ms of virtual time slept per loop iteration (reap_process legitimately sleeps 1 ms at a time for a dying worker)',
               'completion bound: 2*max(graceful timeouts in force) + n*warmup + 1 s after acceptance; in the `tight` world (one request, nothing else in flight, one deviation in every tier): one grace period per termination phase + n*warmup + 0.5 s']

KS = ['none', 'kill-long', 'kill-short', 'kill-pid', 'signal', 'kill-3s']
READONLY = [('status', {'name': 'a'}), ('list', {'name': 'a'}), ('list', {}), ('numprocesses', {'name': 'a'}),
            ('numprocesses', {}), ('options', {'name': 'a'}), ('numwatchers', {}), ('get', {'name': 'a', 'keys': ['numprocesses']}),
            ('globaloptions', {}), ('listsockets', {}), ('status', {}), ('stats', {'name': 'a'}), ('dstats', {})]


def scenarios(tier):
    out = []
    pats = ['obedient', 'stubborn', 'late'] if tier == 'quick' else ['obedient', 'slow', 'late', 'stubborn', 'first-stubborn']
    for k in KS:
        for pat in pats:
            for n in ((2,) if tier == 'quick' else (1, 2)):
                out.append(Scenario('ks', k=k, pat=pat, n=n, w=0.0, probe=False))
    for pat in ('obedient', 'stubborn'):
        out.append(Scenario('ks', k='none', pat=pat, n=2, w=0.25, probe=False))
    out = [s_ for s_ in out if not (s_.p.get('k') == 'kill-3s' and s_.p.get('pat') != 'stubborn')]
    # nothing else in flight and three workers that never die from the stop signal: the bound is ONE grace period for an
    # operation that terminates them together (the sum over the workers only for a sequential reload)
    out.append(Scenario('ks', k='none', pat='stubborn', n=3, w=0.0, probe=False, tight=True))
    # a watcher that does not respawn and has lost a worker: active, one short
    for pat in ('obedient', 'stubborn'):
        out.append(Scenario('ks', k='die-then-check', pat=pat, n=2, w=0.0, probe=False, respawn=False))
    # on-demand watcher: a worker dies / incr after the first connection, then the next socket event
    for tail in ('die', 'incr'):
        out.append(Scenario('ondemand', tail=tail, n=2, nodet=True))
    # captured output: bursts around the read buffer size
    for size in (1, 1023, 1024, 1025, 2048, 4096, 5000):
        for chan in ('stdout', 'stderr'):
            out.append(Scenario('output', size=size, chan=chan, nodet=True))
    # read-only probes at every L-point of canonical long operations
    for op in ('stop', 'restart', 'reload-seq', 'incr', 'quit', 'kill-long'):
        for pat in ('stubborn', 'slow'):
            out.append(Scenario('probe', op=op, pat=pat, n=2, w=0.25, nodet=True))
    return out


def bound(tier, scn):
    if scn.name in ('probe', 'ondemand', 'output'):
        return 0
    if scn.p.get('tight'):
        return 1            # ONE request and nothing else in flight: that is what makes the tight deadline applicable
    return 1 if tier == 'quick' else 2


def bounds(tier):
    return {'K_in_flight': KS, 'S': 'stop restart reload reload-seq decr incr rm quit set kill (waiting on/off)',
            'deviations': bound(tier, Scenario('ks')), 'graceful_timeout': G, 'overrides': [0.1, 1.0],
            'readonly_probes_per_L_point': len(READONLY)}


def s_menu(world):
    evs = []
    for waiting in (False, True):
        suf = ',waiting' if waiting else ''
        kw = {'waiting': True} if waiting else {}
        evs += [Req('stop', label='stop(a%s)' % suf, name='a', **kw),
                Req('restart', label='restart(a%s)' % suf, name='a', **kw),
                Req('reload', label='reload(a%s)' % suf, name='a', **kw),
                Req('reload', label='reload-seq(a%s)' % suf, name='a', sequential=True, **kw),
                Req('decr', label='decr(a%s)' % suf, name='a', **kw),
                Req('incr', label='incr(a%s)' % suf, name='a', **kw),
                Req('start', label='start(a%s)' % suf, name='a', **kw),
                Req('rm', label='rm(a%s)' % suf, name='a', **kw),
                Req('quit', label='quit(%s)' % suf, **kw),
                Req('set', label='set(a.np=1%s)' % suf, name='a', options={'numprocesses': 1}, **kw)]
    evs.append(Req('kill', label='kill(a)', name='a'))
    evs.append(Req('kill', label='kill(a,gt=0.6,waiting)', name='a', graceful_timeout=0.6, waiting=True))
    evs.append(Req('kill', label='kill(a,gt=0,waiting)', name='a', graceful_timeout=0, waiting=True))
    return [S(e) for e in evs]


class S(object):
    def __init__(self, ev):
        self.ev = ev
        self.label = ev.label

    def apply(self, world):
        self.ev.apply(world)
        world.s_records.append((CLOCK.now, self.ev))


def run(scn, ch):
    res = Result()
    if scn.name == 'ondemand':
        return _run_ondemand(scn, ch, res)
    if scn.name == 'output':
        return _run_output(scn, ch, res)
    g_a = 1.0 if scn.p.get('tight') else G        # (tight: a grace period well above the request's own 0)
    world = World(ch, [WSpec('a', numprocesses=scn.n, graceful_timeout=g_a, warmup_delay=scn.w,
                             behaviours=pattern(scn.pat), respawn=scn.p.get('respawn', True)),
                       WSpec('b', numprocesses=1, graceful_timeout=G)])
    world.s_records = []
    if scn.name == 'probe':
        return _run_probe(scn, ch, res, world)
    win = Window(world, lmenu=s_menu)
    try:
        world.boot()
        world.run(until=lambda w: w.boot_future.done(), horizon=5)
        world.run(horizon=0.5)
        gmax = G
        k = scn.k
        pids = sorted(world.watcher('a').processes)
        if k == 'kill-long':
            world.request('kill', name='a', graceful_timeout=1.0)
            gmax = 1.0
        elif k == 'kill-3s':
            # a grace period of the request that exceeds the watcher's own by more than a second
            world.request('kill', name='a', graceful_timeout=3.0)
            gmax = 3.0
        elif k == 'kill-short':
            world.request('kill', name='a', graceful_timeout=0.1)
        elif k == 'kill-pid':
            world.request('kill', name='a', pid=pids[0], graceful_timeout=1.0)
            gmax = 1.0
        elif k == 'signal':
            world.request('signal', name='a', signum=10)
        elif k == 'die-then-check':
            # one worker exits and a periodic check has collected it (a respawn=False watcher then stays one short)
            world.die(pids[0], EXIT1)
            world.settle(1)
        win.open = True
        # the window: S (and deaths) may arrive at any loop-iteration boundary of the next 1.3 s
        world.run(horizon=1.3, menu=win.menu)
        win.open = False
        limit = 2 * max(gmax, 0.6) + scn.n * scn.w + 1.0
        for t_s, ev in world.s_records:
            rq = ev.request
            if scn.p.get('tight') and len(world.s_records) == 1:
                # the applicable grace periods: one per termination phase of the operation (the reply of a kill request
                # that carries its own grace period: that one)
                phases = scn.n if ev.label.startswith('reload-seq') else 1
                limit = phases * float(ev.props.get('graceful_timeout', g_a)) + scn.n * scn.w + 0.5
            rep = rq.reply()
            waiting = bool(ev.props.get('waiting'))
            accepted = rq.replied() and (rep or {}).get('status') == 'ok' if not waiting else None
            if not waiting and not accepted:
                res.ev('C05.s_refused', True)
                continue
            why = world.run(until=lambda w: (w.slot() is None and not w.stopping_processes()) and
                            (not waiting or rq.replied()), horizon=max(0.0, t_s + limit - CLOCK.now))
            res.check('C05.finishes', why == 'until',
                      lambda: 'S=%s (after K=%s) accepted at t=%.2f not finished/answered %.2fs later: slot=%r replied=%s stopping=%s'
                      % (ev.label, k, t_s, limit, world.slot(), rq.replied(), [p.pid - PID_BASE for p in world.stopping_processes()]),
                      where=_site(world, ev, rq, waiting))
        world.settle(1)
        res.ev('C05.callback_budget', True)
        res.outcome = digest([CLOCK.max_cb_sleep > 0, [(r.command, (r.reply() or {}).get('status')) for r in world.requests],
                              [(p.state) for p in world.kernel.spawn_log]])
        res.info['max_cb_sleep'] = CLOCK.max_cb_sleep
        return finish(world, res)
    except Abort as e:
        res.check('C05.callback_budget', False, 'K=%s S=%s: %s at %s' % (scn.k, [e2.label for _, e2 in world.s_records], e, CLOCK.blocked_where),
                  where=world.blocked_site())
        return finish(world, res, aborted=str(e))


def _site(world, ev, rq, waiting):
    site = 'commands.%s%s' % (ev.command, '/waiting' if waiting else '')
    closed = waiting and world.arbiter.ctrl.stream.closed() and world.slot() is None
    if closed and ev.command == 'quit':
        return site + '/stream-closed-before-reply'
    if closed and not rq.replied():
        if any(r.command == 'quit' and r is not rq for r in world.requests):
            # the operation itself finished; its reply was written after a quit (sent before it, or while it was in
            # flight) had closed the control stream
            return 'controller.send_response/waiting-request-dispatched-after-completed-quit'
    return site


def _probe_all(world, res, op):
    for cmd, props in READONLY:
        n0 = len(world.requests)
        rq = world.request(cmd, **dict(props))
        rep = rq.reply()
        gone = (cmd in ('status', 'list', 'numprocesses', 'options', 'get', 'stats') and props.get('name') and
                world.watcher(props['name']) is None)
        res.check('C05.readonly_immediate', rep is not None and (rep.get('status') == 'ok' or gone or
                                                               (cmd == 'status' and 'name' in props and rep.get('status') != 'error')),
                  lambda: 'read-only %s %s during %s (slot=%r) answered %r (escaped=%r)'
                  % (cmd, props, op, world.slot(), rep, rq.escaped), where='commands.' + cmd,
                  nontrivial=world.slot() is not None or bool(world.stopping_processes()))


def _run_probe(scn, ch, res, world):
    try:
        world.boot()
        world.run(until=lambda w: w.boot_future.done(), horizon=5)
        world.run(horizon=0.5)
        op = scn.op
        if op == 'stop':
            world.request('stop', name='a')
        elif op == 'restart':
            world.request('restart', name='a')
        elif op == 'reload-seq':
            world.request('reload', name='a', sequential=True)
        elif op == 'incr':
            world.request('incr', name='a', nb=2)
        elif op == 'quit':
            world.request('quit')
        elif op == 'kill-long':
            world.request('kill', name='a', graceful_timeout=1.0)
        t_end = CLOCK.now + 2.5
        while CLOCK.now < t_end:
            if world.arbiter.ctrl.started and not world.arbiter.ctrl.stream.closed():
                _probe_all(world, res, op)
            r = world.step()
            if r == 'idle':
                break
        res.outcome = digest([op, scn.pat, len(world.requests)])
        return finish(world, res)
    except Abort as e:
        res.check('C05.callback_budget', False, 'probe %s: %s' % (scn.op, e), where=world.blocked_site())
        return finish(world, res, aborted=str(e))


def _run_output(scn, ch, res):
    """A worker whose output is captured writes a burst (sizes around the 1024-byte read buffer, exact multiples included)
    and stays silent: the loop goes on, read-only requests are answered."""
    got = []
    world = World(ch, [WSpec('a', numprocesses=1, graceful_timeout=G, stdout_stream={'stream': got.append},
                             stderr_stream={'stream': got.append})])
    try:
        world.boot()
        world.run(until=lambda w: w.boot_future.done(), horizon=5)
        world.run(horizon=0.3)
        p = world.procs_of('a', [RUNNING])[0]
        fd = p.out_w if scn.chan == 'stdout' else p.err_w
        os.write(fd, b'x' * scn.size)
        world.run(horizon=1.5)
        for cmd, props in (('status', {'name': 'a'}), ('list', {'name': 'a'}), ('numprocesses', {'name': 'a'})):
            rq = world.request(cmd, **props)
            res.check('C05.readonly_immediate', rq.replied() and rq.reply().get('status') in ('ok', 'active'),
                      lambda: 'read-only %s after an output burst of %d bytes answered %r' % (cmd, scn.size, rq.reply()),
                      where='commands.' + cmd)
        n = sum(len(d['data']) for d in got)
        res.check('C05.loop_goes_on', n == scn.size, lambda: 'worker wrote %d bytes, %d were read after 1.5 s' % (scn.size, n),
                  where='redirector.Handler')
        res.ev('C05.callback_budget', True)
        res.outcome = digest([scn.size, n])
        return finish(world, res)
    except Abort as e:
        res.check('C05.callback_budget', False, 'output burst of %d bytes: %s at %s' % (scn.size, e, CLOCK.blocked_where),
                  where=world.blocked_site())
        return finish(world, res, aborted=str(e))


def _run_ondemand(scn, ch, res):
    import socket
    from circus.sockets import CircusSocket
    from vt.events import EXIT1
    sock = CircusSocket.load_from_config({'name': 'web', 'host': '127.0.0.1', 'port': '0'})
    world = World(ch, [WSpec('od', numprocesses=scn.n if scn.tail == 'die' else 1, graceful_timeout=G, on_demand=True,
                             use_sockets=True, cmd='worker --fd $(circus.sockets.web)')], sockets=[sock])
    clients = []
    try:
        world.boot()
        world.run(until=lambda w: w.boot_future.done(), horizon=5)
        world.settle(1)

        def connect():
            c = socket.socket(socket.AF_INET, socket.SOCK_STREAM)
            c.settimeout(0.5)
            c.connect(world.arbiter.sockets['web'].getsockname())
            clients.append(c)
        connect()
        world.settle(2)
        started = len(world.procs_of('od', [RUNNING]))
        res.check('C05.ondemand_started', started >= 1, 'on-demand watcher did not start on a connection', where='arbiter.manage_watchers')
        if scn.tail == 'die':
            world.die(world.procs_of('od', [RUNNING])[0].pid, EXIT1)
        else:
            world.request('incr', name='od')
        world.settle(1)
        connect()                  # the next socket event
        world.settle(2)
        _probe_all(world, res, 'on-demand watcher after %s + socket event' % scn.tail)
        res.ev('C05.callback_budget', True)
        res.outcome = digest([scn.tail, [(p.state) for p in world.kernel.spawn_log]])
        return finish(world, res)
    except Abort as e:
        res.check('C05.callback_budget', False,
                  'on-demand watcher, %s after the first connection, then the next socket event: %s at %s'
                  % (scn.tail, e, CLOCK.blocked_where), where=world.blocked_site() + '/on-demand-start-reaps-live-workers')
        return finish(world, res, aborted=str(e))
    finally:
        for c in clients:
            c.close()
        if not world.closed:
            world.close()

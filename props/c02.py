"""C02 — Stop leaves no survivor and no zombie, and stopped stays stopped."""
import itertools
import signal

from props.common import *      # noqa: F401,F403
from props.common import (pattern, Window, finish, listed_pids, status_of, numprocesses_of, nth_hook, G)
from vt.runner import Scenario

ID = 'C02'
KIND = 'explorer'
LEVEL = 'model_checking'
LIVE = {'thorough': ['stubborn-stop', 'external-kill-then-stop']}
BUDGET = {'quick': 900, 'thorough': 10800}
RULE = ('every execution = fresh real daemon + simulated kernel; all placements of <=E worker deaths '
        '(exit 1 / killed by 9) at every loop-iteration boundary and before every kernel call of the '
        'stop/restart/rm/quit/aborted-start sequence; phase two: all request sequences of length <=3 '
        'against the stopped watcher; an outcome is the tuple of kernel process states, signal log and replies')
ASSUMPTIONS = ['reloadconfig-induced stops are exercised under C12; on_demand socket events only in the thorough tier']

OPS = ['stop', 'stop-all', 'restart', 'rm', 'quit']
TAIL_OPS = ['check', 'incr', 'decr', 'set-np', 'set-opt', 'set-cmd', 'set-env', 'set-max_age', 'set-wd', 'kill', 'signal',
            'die-none']


def scenarios(tier):
    out = []
    pats = ['obedient', 'slow', 'late', 'stubborn', 'first-stubborn']
    for op in OPS:
        for n in (1, 2):
            for pat in pats:
                if tier == 'quick' and n == 2 and pat in ('slow', 'late'):
                    continue
                out.append(Scenario('op', op=op, n=n, pat=pat, inflight_kill=False, watchers=1))
        # grace periods the 0.1 s polling loop hits exactly (0, 0.1, 0.5) with workers that never die from the signal
        for gg in (0, 0.1, 0.5):
            out.append(Scenario('op', op=op, n=1, pat='stubborn', inflight_kill=False, watchers=1, g=gg))
    # a worker that is still there for an instant after its SIGKILL (kill(2) returns before the target is torn down)
    for op in OPS:
        out.append(Scenario('op', op=op, n=2, pat='stubborn-lag', inflight_kill=False, watchers=1))
    # requests sent with waiting: the instant of the reply is the instant the operation has completed for its client
    for op in ('stop', 'restart', 'rm', 'stop-all'):
        for pat in ('stubborn', 'slow'):
            out.append(Scenario('op', op=op, n=2, pat=pat, inflight_kill=False, watchers=1, wait=True))
        out.append(Scenario('op', op=op, n=1, pat='stubborn', inflight_kill=True, watchers=1, wait=True))
    # a kill request in flight (non exclusive) when the stop arrives
    for op in ('stop', 'restart', 'quit'):
        for pat in ('stubborn', 'late', 'obedient'):
            for n in ((1,) if tier == 'quick' else (1, 2)):
                out.append(Scenario('op', op=op, n=n, pat=pat, inflight_kill=True, watchers=1))
    # two watchers: stop of one must not disturb the other; stop-all stops both
    for op in ('stop', 'stop-all', 'quit'):
        out.append(Scenario('op', op=op, n=1, pat='first-stubborn', inflight_kill=False, watchers=2))
    # internal stops: start aborted part-way
    for cause in ('after_spawn_false', 'before_spawn_false', 'exec_fault', 'after_start_false'):
        for k in (1, 2):
            for pat in ('obedient', 'stubborn'):
                out.append(Scenario('abort', cause=cause, k=k, pat=pat, n=2))
    for pat in ('obedient',):
        out.append(Scenario('respawn_off', pat=pat, n=2))
    # on-demand watcher on a real listening socket next to an ordinary watcher that was stopped by request
    for ev in ('none', 'connect'):
        for tail in ('check', 'incr-od', 'die-od'):
            out.append(Scenario('ondemand', ev=ev, tail=tail, nodet=True))
    for tail in ('lose-one+stop', 'lose-one+rm'):
        out.append(Scenario('ondemand', ev='connect', tail=tail, nodet=True))

    # a stop / rm that completes while the socket-event start of an on-demand watcher is between two spawns
    for op in ('stop', 'rm', 'stop-all'):      # (stop-all: a stop without a name goes through the arbiter's own helper)
        out.append(Scenario('ondemand-race', op=op, E=1))
        # ... or that is still in flight (workers that ignore the stop signal) when that start spawns its next worker
        out.append(Scenario('ondemand-race', op=op, E=1, pat='stubborn'))
        # ... or that meets the stop with which that start ends itself (after_start refuses; the workers ignore the signal)
        out.append(Scenario('ondemand-race', op=op, E=1, pat='stubborn', hook='after_start-false'))
    # phase two: stopped stays stopped
    maxlen = 2 if tier == 'quick' else 3
    ops = [o for o in TAIL_OPS if o != 'die-none']
    for L in range(1, maxlen + 1):
        for tail in itertools.product(ops, repeat=L):
            out.append(Scenario('tail', tail=list(tail), n=2, pat='obedient', nodet=True))
    return out


def bound(tier, scn):
    if scn.name == 'tail':
        return 0
    if scn.name == 'ondemand-race':
        return 1
    if tier == 'quick':
        return 2 if (scn.name == 'op' and scn.n == 1 and not scn.inflight_kill) else 1
    return 2


def bounds(tier):
    return {'numprocesses': [1, 2], 'watchers': [1, 2], 'graceful_timeout': G, 'death_statuses': ['exit 1', 'SIGKILL'],
            'deviations_per_execution': '<=2' if tier == 'thorough' else '<=1 (2 for n=1 plain ops)',
            'tail_length': 3 if tier == 'thorough' else 2}


def _specs(world_holder, scn):
    pass


def run(scn, ch):
    res = Result()
    if scn.name == 'op':
        return _run_op(scn, ch, res)
    if scn.name == 'abort':
        return _run_abort(scn, ch, res)
    if scn.name == 'respawn_off':
        return _run_respawn_off(scn, ch, res)
    if scn.name == 'tail':
        return _run_tail(scn, ch, res)
    if scn.name == 'ondemand':
        return _run_ondemand(scn, ch, res)
    if scn.name == 'ondemand-race':
        return _run_ondemand_race(scn, ch, res)
    raise ValueError(scn.name)


def _assert_stopped(world, res, wobj, name, when, listed=True, site='watcher._stop'):
    procs = world.procs_of(name)
    surv = [p.pid for p in procs if p.state == RUNNING]
    res.check('C02.no_survivor', not surv, lambda: '%s: workers still running %s: %s' % (when, name, surv),
              where=site, nontrivial=bool(procs))
    zomb = [p.pid for p in procs if p.state == ZOMBIE]
    if zomb:
        # distinguish a zombie the next check collects from one that stays
        world.settle(1)
        still = [p.pid for p in procs if p.state == ZOMBIE]
        if still:
            res.check('C02.no_zombie', False, '%s: zombies never reaped: %s' % (when, still), where=site)
        else:
            res.check('C02.zombie_at_completion', False,
                      '%s: unreaped zombie(s) %s when the operation completed (collected by the next check)'
                      % (when, zomb), where=site)
    else:
        res.ev('C02.no_zombie', bool(procs))
        res.ev('C02.zombie_at_completion', bool(procs))
    res.check('C02.status_stopped', wobj.status() == 'stopped',
              lambda: '%s: status is %r' % (when, wobj.status()), where=site)
    res.check('C02.zero_listed', len(wobj.processes) == 0,
              lambda: '%s: %d processes still listed' % (when, len(wobj.processes)), where=site)
    if listed:
        st = status_of(world, name)
        lp = listed_pids(world, name)
        npr = numprocesses_of(world, name)
        res.check('C02.status_stopped', st == 'stopped', lambda: '%s: status reply %r' % (when, st),
                  where='commands.status')
        res.check('C02.zero_listed', lp == [] and npr == 0,
                  lambda: '%s: list=%r numprocesses=%r' % (when, lp, npr), where='commands.list')


def _run_op(scn, ch, res):
    g = scn.p.get('g', G)
    specs = [WSpec('a', numprocesses=scn.n, graceful_timeout=g, behaviours=pattern(scn.pat))]
    if scn.watchers == 2:
        specs.append(WSpec('b', numprocesses=1, graceful_timeout=g, behaviours=pattern('obedient')))
    world = World(ch, specs)
    win = Window(world)
    try:
        world.boot()
        world.run(until=lambda w: w.boot_future.done(), horizon=5)
        world.settle(1)
        wa = world.watcher('a')
        wb = world.watcher('b') if scn.watchers == 2 else None
        before = [p.pid for p in world.procs_of('a')]
        before_b = [p.pid for p in world.procs_of('b', [RUNNING])]
        win.open = True
        if scn.inflight_kill:
            world.request('kill', name='a', graceful_timeout=1.0)
            for _ in range(2):
                world.step(win.menu)
        t_req = CLOCK.now
        op = scn.op
        wait = bool(scn.p.get('wait'))
        wkw = {'waiting': True} if wait else {}
        if op == 'stop':
            req = world.request('stop', name='a', **wkw)
        elif op == 'stop-all':
            req = world.request('stop', **wkw)
        elif op == 'restart':
            req = world.request('restart', name='a', **wkw)
        elif op == 'rm':
            req = world.request('rm', name='a', **wkw)
        elif op == 'quit':
            req = world.request('quit')
        if wait:
            g_ = scn.p.get('g', G)
            world.run(until=lambda w: req.replied(), horizon=g_ * (len(before) + 2) + 2.0, menu=win.menu)
            res.check('C02.completes', req.replied(), lambda: '%s (waiting) not answered %.2fs after the request'
                      % (op, CLOCK.now - t_req), where='watcher._stop')
            if req.replied() and req.ok():
                surv = [p.pid for p in world.procs_of('a') if p.pid in before and p.state == RUNNING]
                res.check('C02.no_survivor', not surv,
                          lambda: '%s (waiting) was answered ok at +%.3fs while workers %s it had to terminate were still '
                          'running' % (op, CLOCK.now - t_req, surv), where='watcher._stop/answered-before-the-workers-were-gone')
        accepted = req.ok()
        res.check('C02.accepted', accepted, lambda: 'request refused: %r' % req.reply(), where='controller')
        if not accepted:
            return finish(world, res)
        nworkers = len(before) + 2
        horizon = g * nworkers + (1.0 if scn.inflight_kill else 0) + 1.0
        if op == 'quit':
            done = lambda w: w.slot() is None and w.arbiter._stopping   # noqa: E731
        else:
            done = lambda w: w.slot() is None     # noqa: E731
        why = world.run(until=done, horizon=horizon, menu=win.menu)
        win.open = False
        completed = why == 'until'
        res.check('C02.completes', completed,
                  lambda: '%s not completed %.2fs after the request (slot=%r)' % (op, CLOCK.now - t_req, world.slot()),
                  where='watcher._stop')
        if not completed:
            return finish(world, res)
        when = '%s completed' % op
        if op == 'restart':
            old = [p for p in world.procs_of('a') if p.pid in before]
            surv = [p.pid for p in old if p.state == RUNNING]
            res.check('C02.no_survivor', not surv, lambda: 'restart: old workers still running: %s' % surv,
                      where='watcher._restart')
            zomb = [p.pid for p in old if p.state == ZOMBIE]
            res.check('C02.zombie_at_completion', not zomb,
                      lambda: 'restart: old workers unreaped at completion: %s' % zomb, where='watcher._restart')
        else:
            _assert_stopped(world, res, wa, 'a', when, listed=(op in ('stop', 'stop-all')))
            if op in ('stop-all', 'quit') and wb is not None:
                _assert_stopped(world, res, wb, 'b', when, listed=(op == 'stop-all'))
            if op == 'stop' and wb is not None:
                sig_b = [(t, pid, sg) for (t, pid, sg, via) in world.kernel.signal_log
                         if world.kernel.procs[pid].watcher == 'b']
                res.check('C02.other_untouched', not sig_b and wb.status() == 'active',
                          lambda: 'watcher b disturbed by stop a: signals %s status %s' % (sig_b, wb.status()),
                          where='arbiter')
            if op in ('stop', 'stop-all', 'rm'):
                # stays stopped over idle checks
                nspawn = len(world.procs_of('a'))
                world.settle(2)
                res.check('C02.stays_stopped', len(world.procs_of('a')) == nspawn,
                          lambda: 'a worker was started for the stopped watcher by an idle periodic check',
                          where='watcher.manage_processes')
        res.outcome = _outcome(world)
        return finish(world, res)
    except Abort as e:
        res.check('C02.completes', False, 'execution aborted: %s at %s' % (e, CLOCK.blocked_where),
                  where=world.blocked_site())
        return finish(world, res, aborted=str(e))


def _outcome(world):
    from vt.explorer import digest
    return digest([[(p.watcher, p.state, [s for (_, s, _) in p.signals]) for p in world.kernel.spawn_log],
                   [r.reply() and r.reply().get('status') for r in world.requests]])


def _run_abort(scn, ch, res):
    """A start that is aborted part-way: the internal _stop meets workers that are still being spawned."""
    g = G
    world = World(ch, [])
    win = Window(world)
    hooks = {}
    opts = dict(numprocesses=scn.n, graceful_timeout=g, warmup_delay=0.25, max_retry=2, autostart=False)
    if scn.cause == 'after_spawn_false':
        hooks['after_spawn'] = (nth_hook(world, scn.k, False), False)
    elif scn.cause == 'before_spawn_false':
        hooks['before_spawn'] = (nth_hook(world, scn.k, False), False)
    elif scn.cause == 'after_start_false':
        hooks['after_start'] = (nth_hook(world, 1, False), False)
    if hooks:
        opts['hooks'] = hooks
    world.specs['a'] = WSpec('a', behaviours=pattern(scn.pat), **opts)
    world.spec_list = [world.specs['a']]
    if scn.cause == 'exec_fault':
        # every attempt of the k-th spawn fails with ENOENT (max_retry attempts)
        state = {'ok': 0}

        def fault(kernel, attempt, info):
            if len(kernel.spawn_log) == scn.k - 1:
                return OSError(2, 'No such file or directory')
            return None
        world.kernel.popen_fault = fault
    try:
        world.boot()
        world.run(until=lambda w: w.boot_future.done(), horizon=5)
        wa = world.watcher('a')
        win.open = True
        req = world.request('start', name='a')
        t_req = CLOCK.now
        res.check('C02.accepted', req.ok(), lambda: 'start refused %r' % req.reply(), where='controller')
        why = world.run(until=lambda w: w.slot() is None, horizon=g * 3 + 0.25 * scn.n + 1.0, menu=win.menu)
        win.open = False
        res.check('C02.completes', why == 'until',
                  lambda: 'aborted start did not end within %.2fs' % (CLOCK.now - t_req), where='watcher._start')
        if why != 'until':
            return finish(world, res)
        aborted_start = wa.status() != 'active'
        if scn.cause == 'exec_fault' and scn.k == 2 and False:
            pass
        if aborted_start:
            # un-awaited kills may still be in flight for g seconds: the statement is about completion of
            # the stop, which for an aborted start is the end of the start request; allow the kill loop's own
            # bounded time before judging survivors.
            world.run(horizon=g + 0.2)
            _assert_stopped(world, res, wa, 'a', 'start aborted by %s(k=%d)' % (scn.cause, scn.k),
                            site='start-aborted/%s' % scn.cause)
            nspawn = len(world.procs_of('a'))
            world.settle(2)
            res.check('C02.stays_stopped', len(world.procs_of('a')) == nspawn,
                      'worker started for a watcher whose start was aborted', where='watcher.manage_processes')
        else:
            res.ev('C02.start_not_aborted', True)
        res.outcome = _outcome(world)
        return finish(world, res)
    except Abort as e:
        res.check('C02.completes', False, 'execution aborted: %s at %s' % (e, CLOCK.blocked_where),
                  where=world.blocked_site())
        return finish(world, res, aborted=str(e))


def _run_respawn_off(scn, ch, res):
    g = G
    world = World(ch, [WSpec('a', numprocesses=scn.n, graceful_timeout=g, respawn=False,
                             behaviours=pattern(scn.pat))])
    win = Window(world)
    try:
        world.boot()
        world.run(until=lambda w: w.boot_future.done(), horizon=5)
        wa = world.watcher('a')
        # all workers die by themselves, one after the other; the last death makes the check stop the watcher
        for p in list(world.kernel.running_workers()):
            world.die(p.pid, EXIT1)
        win.open = True
        world.run(horizon=1.0 + 1e-3, menu=win.menu)
        win.open = False
        world.settle(1)
        _assert_stopped(world, res, wa, 'a', 'respawn=False, all workers died')
        res.outcome = _outcome(world)
        return finish(world, res)
    except Abort as e:
        res.check('C02.completes', False, 'execution aborted: %s' % e, where=world.blocked_site())
        return finish(world, res, aborted=str(e))


def _run_tail(scn, ch, res):
    g = G
    world = World(ch, [WSpec('a', numprocesses=scn.n, graceful_timeout=g, behaviours=pattern(scn.pat)),
                       WSpec('b', numprocesses=1, graceful_timeout=g)])
    try:
        world.boot()
        world.run(until=lambda w: w.boot_future.done(), horizon=5)
        req = world.request('stop', name='a')
        world.run(until=lambda w: w.slot() is None, horizon=2)
        wa = world.watcher('a')
        nspawn = len(world.procs_of('a'))
        for op in scn.tail:
            if op == 'check':
                world.settle(1)
                continue
            elif op == 'incr':
                r = world.request('incr', name='a')
            elif op == 'decr':
                r = world.request('decr', name='a')
            elif op == 'set-np':
                r = world.request('set', name='a', options={'numprocesses': 3})
            elif op == 'set-opt':
                r = world.request('set', name='a', options={'graceful_timeout': 0.5})
            elif op == 'set-cmd':
                r = world.request('set', name='a', options={'cmd': 'sleep 61'})
            elif op == 'set-env':
                r = world.request('set', name='a', options={'env': {'A': 'b'}})
            elif op == 'set-max_age':
                r = world.request('set', name='a', options={'max_age': 100})
            elif op == 'set-wd':
                r = world.request('set', name='a', options={'working_dir': '/'})
            elif op == 'kill':
                r = world.request('kill', name='a')
            elif op == 'signal':
                r = world.request('signal', name='a', signum=15)
            world.run(until=lambda w: w.slot() is None and not w.loop.has_ready(), horizon=1.0)
        world.settle(2)
        now = len(world.procs_of('a'))
        res.check('C02.stays_stopped', now == nspawn,
                  lambda: 'stopped watcher got %d new worker(s) after %s' % (now - nspawn, scn.tail),
                  where='watcher.manage_processes')
        res.check('C02.status_stopped', wa.status() == 'stopped',
                  lambda: 'status %r after %s' % (wa.status(), scn.tail), where='watcher.manage_processes')
        res.outcome = _outcome(world)
        return finish(world, res)
    except Abort as e:
        return finish(world, res, aborted=str(e))


def _run_ondemand(scn, ch, res):
    """An on_demand watcher (starts at the first connection to its socket) and an ordinary watcher stopped by request:
    only the on-demand watcher may be started by a socket event."""
    import socket
    from circus.sockets import CircusSocket
    sock = CircusSocket.load_from_config({'name': 'web', 'host': '127.0.0.1', 'port': '0'})
    world = World(ch, [WSpec('od', numprocesses=2 if scn.tail.startswith('lose-one') else 1, graceful_timeout=G,
                             on_demand=True, use_sockets=True, cmd='worker --fd $(circus.sockets.web)'),
                       WSpec('a', numprocesses=1, graceful_timeout=G)], sockets=[sock])
    client = None
    try:
        world.boot()
        world.run(until=lambda w: w.boot_future.done(), horizon=5)
        world.settle(1)
        od, wa = world.watcher('od'), world.watcher('a')
        res.check('C02.ondemand_waits', not world.procs_of('od') and od.status() == 'stopped',
                  lambda: 'on_demand watcher started %d workers before any connection' % len(world.procs_of('od')),
                  where='watcher.spawn_processes')
        world.request('stop', name='a')
        world.run(until=lambda w: w.slot() is None, horizon=3)
        n_a = len(world.procs_of('a'))
        if scn.ev == 'connect':
            client = socket.socket(socket.AF_INET, socket.SOCK_STREAM)
            client.settimeout(0.5)
            client.connect(world.arbiter.sockets['web'].getsockname())
        world.settle(2)
        if scn.tail == 'incr-od':
            world.request('incr', name='od')
            world.run(until=lambda w: w.slot() is None, horizon=2)
        elif scn.tail == 'die-od':
            for p in world.procs_of('od', [RUNNING]):
                world.die(p.pid, EXIT1)
        elif scn.tail.startswith('lose-one'):
            # the on-demand watcher (2 workers, woken by the connection) loses ONE worker; a check passes; then it is stopped
            # (or removed): the worker that was left must be gone as well
            try:
                conn, _ = world.arbiter.sockets['web'].accept()
                conn.close()
            except OSError:
                pass
            live_od = world.procs_of('od', [RUNNING])
            if live_od:
                world.die(live_od[0].pid, EXIT1)
            world.settle(1)
            rq = world.request('stop' if scn.tail == 'lose-one+stop' else 'rm', name='od', waiting=True)
            world.run(until=lambda w: rq.replied(), horizon=3)
            if rq.replied() and rq.ok():
                left = [p.pid for p in world.procs_of('od') if p.state == RUNNING]
                res.check('C02.no_survivor', not left,
                          lambda: '%s od was answered ok while workers %s of the on-demand watcher were still running (status %s)'
                          % (scn.tail, left, od.status()), where='watcher._stop/on-demand-one-short')
            world.settle(1)
            res.outcome = _outcome(world)
            return finish(world, res)
        world.settle(2)
        if scn.ev == 'connect':
            res.check('C02.ondemand_starts_on_connection', len(world.procs_of('od', [RUNNING])) >= 1,
                      lambda: 'a connection arrived on the socket but the on_demand watcher has no worker (status %s)' % od.status(),
                      where='arbiter.manage_watchers')
        else:
            res.check('C02.ondemand_waits', not world.procs_of('od', [RUNNING]) or scn.tail == 'incr-od',
                      lambda: 'on_demand watcher runs %d workers without any connection (tail %s)'
                      % (len(world.procs_of('od', [RUNNING])), scn.tail), where='watcher.spawn_processes')
        res.check('C02.stays_stopped', len(world.procs_of('a')) == n_a and wa.status() == 'stopped',
                  lambda: 'watcher a was stopped by request; a %s for the on_demand watcher od started %d worker(s) for it (status %s)'
                  % ('socket event' if scn.ev == 'connect' else 'periodic check', len(world.procs_of('a')) - n_a, wa.status()),
                  where='arbiter.manage_watchers/socket-event-starts-all' if scn.ev == 'connect' else 'watcher.manage_processes')
        res.outcome = _outcome(world)
        return finish(world, res)
    except Abort as e:
        return finish(world, res, aborted=str(e))
    finally:
        if client is not None:
            client.close()
        if not world.closed:
            world.close()


def _run_ondemand_race(scn, ch, res):
    """The start of an on-demand watcher triggered by a socket event does not hold the exclusive slot: a stop / rm can
    complete between two of its (warmup-paced) spawns."""
    import socket
    from circus.sockets import CircusSocket
    from vt.events import Req
    sock = CircusSocket.load_from_config({'name': 'web', 'host': '127.0.0.1', 'port': '0'})
    extra = {}
    if scn.p.get('hook') == 'after_start-false':
        def refuse(watcher, arbiter, hook_name, **kw):
            return False
        extra['hooks'] = {'after_start': (refuse, False)}
    world = World(ch, [WSpec('od', numprocesses=3, graceful_timeout=G, warmup_delay=0.25, on_demand=True,
                             use_sockets=True, cmd='worker --fd $(circus.sockets.web)',
                             behaviours=pattern(scn.p.get('pat', 'obedient')), **extra)], sockets=[sock])
    client = None
    state = {'req': None}

    def menu(w):
        if state['req'] is not None:
            return []
        props = {'name': 'od', 'waiting': True}
        if scn.op == 'stop-all':
            return [_Op(Req('stop', label='stop-all', waiting=True), state)]
        return [_Op(Req(scn.op, **props), state)]
    try:
        world.boot()
        world.run(until=lambda w: w.boot_future.done(), horizon=5)
        world.settle(1)
        od = world.watcher('od')
        client = socket.socket(socket.AF_INET, socket.SOCK_STREAM)
        client.settimeout(0.5)
        lsock = world.arbiter.sockets['web']
        client.connect(lsock.getsockname())
        # run until the first worker exists; it accepts the connection (so the socket is no longer readable)
        world.run(until=lambda w: len(w.procs_of('od')) >= 1, horizon=2.5)
        try:
            conn, _ = lsock.accept()
            conn.close()
        except OSError:
            pass
        t0 = CLOCK.now
        # the window: the stop / rm may arrive at any loop-iteration boundary of the next 1.2 s
        world.run(until=lambda w: state['req'] is not None, horizon=1.2, menu=menu)
        if state['req'] is None:
            res.ev('C02.no_stop_injected', True)
            res.outcome = _outcome(world)
            return finish(world, res)
        rq = state['req'].request
        res.check('C02.accepted', rq.ok() or True, '', where='controller')
        # the request was sent with waiting: the instant it is answered is the instant it has completed
        world.run(until=lambda w: rq.replied(), horizon=3)
        if rq.replied() and rq.ok():
            alive_now = [p.pid for p in world.procs_of('od') if p.state == RUNNING]
            res.check('C02.no_survivor', not alive_now,
                      lambda: '%s od (waiting) was answered ok at t=%.3f while workers %s of the watcher were still running '
                      '(status %s)' % (scn.op, CLOCK.now, alive_now, od.status()),
                      where='watcher._stop/answered-before-the-stop-in-flight-ended')
        world.run(until=lambda w: w.slot() is None and not w.stopping_processes(), horizon=3)
        world.settle(3)
        alive = [p.pid for p in world.procs_of('od') if p.state == RUNNING]
        if rq.ok():
            res.check('C02.no_survivor', not alive,
                      lambda: '%s od completed while its socket-event start was between two spawns; afterwards workers %s run '
                      '(status %s) although no request or socket event started them' % (scn.op, alive, od.status()),
                      where='watcher.spawn_processes/on-demand-start-outlives-stop')
            res.check('C02.status_stopped', od.status() == 'stopped',
                      lambda: 'status %r after %s' % (od.status(), scn.op), where='watcher.spawn_processes/on-demand-start-outlives-stop')
        res.outcome = _outcome(world)
        return finish(world, res)
    except Abort as e:
        res.check('C02.completes', False, 'aborted: %s at %s' % (e, CLOCK.blocked_where), where=world.blocked_site())
        return finish(world, res, aborted=str(e))
    finally:
        if client is not None:
            client.close()
        if not world.closed:
            world.close()


class _Op(object):
    def __init__(self, ev, state):
        self.ev, self.state = ev, state
        self.label = ev.label

    def apply(self, world):
        self.state['req'] = self.ev
        self.ev.apply(world)

"""C18 — Signals reach exactly the addressed workers, with the signal that was named."""
import itertools
import json
import os
import signal

from props.common import *      # noqa: F401,F403
from props.common import write_ini, Scratch
from vt.clock import CLOCK
from vt.explorer import Chooser, digest
from vt.main import EnumResult
from vt.simkernel import Behaviour, PID_BASE, RUNNING
from vt.world import World, WSpec, Abort

ID = 'C18'
KINDS = ['enum']
USES_KERNEL = True
LEVEL = 'exploration'
TECHNIQUE = ('bounded-exhaustive enumeration of signal/kill requests (addressing fields x daemon states) and of signal '
             'designations (every name in every spelling, numbers, one-edit near misses) on the real daemon under the '
             'simulated kernel; reference model for targets and for the designation language')
RULE = ('targets: two watchers whose workers have a child and a grandchild; signal and kill requests with pid / childpid drawn '
        'from {own worker, other watcher\'s worker, own worker\'s child, own grandchild, other\'s child, unrelated real pid, dead '
        'pid, absent}, children / recursive in {absent, false, true}, in the states {active, stopped, exclusive operation in '
        'flight}; the kernel signal log of the request is compared with the reference target set. designations: every SIG* '
        'name of the signal module x {with, without prefix} x {lower, upper, mixed}, numbers 1..64 as int and string, '
        'SIGRTMIN+k / SIGRTMAX-k forms, and every one-edit near miss over {letter, digit, blank, +, _, !}, through signal, kill, '
        'set stop_signal, add stop_signal and an ini stop_signal. Non-trivial = at least one signal was delivered, or the '
        'designation was refused.')
ASSUMPTIONS = ['workers and descendants ignore the test signal (SIGUSR1) so the same world can be reused between cases',
               'signal 0 and numbers outside 1..64 are outside the designation language of the property (only "no signal is '
               'sent" is required for them)']

USR1 = int(signal.SIGUSR1)
ABSENT = '<absent>'
STATES = ['active', 'stopped', 'busy', 'killing']


def bounds(tier):
    return {'states': STATES, 'pid_domain': PIDS, 'childpid_domain': CHILDPIDS, 'flags': [ABSENT, False, True],
            'designations': len(designations(tier)), 'paths': ['signal', 'kill', 'set', 'add', 'ini']}


# ------------------------------------------------------------------ targets
PIDS = [ABSENT, 'own', 'own2', 'other', 'ownchild', 'otherchild', 'real', 'dead', 'str-own', 'zero', 'zero-str', 'false']
CHILDPIDS = [ABSENT, 'ownchild', 'owngrand', 'otherchild', 'own', 'dead', 'child-of-own2']
FLAGS = [ABSENT, False, True]


def target_cases():
    out = []
    for cmd in ('signal', 'kill'):
        for pid in PIDS:
            if cmd == 'signal':
                for cp in CHILDPIDS:
                    for ch in FLAGS:
                        for rec in FLAGS:
                            out.append({'cmd': cmd, 'pid': pid, 'childpid': cp, 'children': ch, 'recursive': rec})
            else:
                for sc in (False, True):
                    out.append({'cmd': cmd, 'pid': pid, 'stop_children': sc})
    return out


class TWorld(object):
    def __init__(self, state, stop_children=False):
        kid = Behaviour('ign+g', {'*': ('ignore',)}, children=(Behaviour('ign', {'*': ('ignore',)}),))
        wb = Behaviour('ign-w', {'*': ('ignore',)}, children=(kid,))
        w = World(Chooser(), [WSpec('a', numprocesses=2, graceful_timeout=5.0, behaviours=[wb], stop_children=stop_children),
                              WSpec('b', numprocesses=1, graceful_timeout=5.0, behaviours=[wb])])
        w.boot()
        w.run(until=lambda x: x.boot_future.done(), horizon=5)
        w.run(horizon=0.2)
        k = w.kernel
        own = sorted(w.watcher('a').processes)
        other = sorted(w.watcher('b').processes)
        self.ids = {'own': own[0], 'own2': own[1], 'other': other[0], 'ownchild': own[0] + 1, 'owngrand': own[0] + 2,
                    'otherchild': other[0] + 1, 'child-of-own2': own[1] + 1, 'real': 1, 'dead': PID_BASE + 999, 'zero': 0, 'zero-str': '0', 'false': False,
                    'str-own': str(own[0])}
        self.own, self.other = own, other
        self.state = state
        if state == 'stopped':
            # stop b and address b: no worker may be signalled.  (a keeps running: it must never be hit)
            w.request('stop', name='b')
            w.run(until=lambda x: x.slot() is None and not x.stopping_processes(), horizon=12)
        elif state == 'busy':
            w.watcher('b').warmup_delay = 60.0
            w.request('incr', name='b', nb=2)
        elif state == 'killing':
            # a kill of the first worker sits in its grace period: the worker got the stop signal, ignores it, and is
            # as alive, listed and addressable as its sibling
            w.request('kill', name='a', pid=own[0], graceful_timeout=50.0).reply()
        self.w = w
        self.n0 = len(k.signal_log)

    def close(self):
        self.w.close()


def descendants(k, pid, recursive):
    p = k.procs.get(pid)
    out = []
    if p is None or p.state != RUNNING:
        return out
    for c in p.children:
        out.append(c.pid)
        if recursive:
            out += descendants(k, c.pid, True)
    return out


def reference_targets(tw, case, watcher):
    """Set of (pid, signum) the request must deliver at once, or None when it must be refused."""
    k = tw.w.kernel
    wt = tw.w.watcher(watcher)
    mine = sorted(wt.processes) if wt is not None and wt.status() != 'stopped' else []
    active = [p for p in mine if k.procs[p].state == RUNNING]
    pid = case['pid']
    val = tw.ids.get(pid)
    if val is False:
        val = 0
    if isinstance(val, str) and val.isdigit():
        val = int(val)              # a pid given as a string of digits is that pid
    if case['cmd'] == 'signal':
        cp, ch, rec = case['childpid'], case['children'], case['recursive']
        if cp != ABSENT and pid == ABSENT:
            return None
        if pid == ABSENT:
            pids = active
        else:
            pids = [val]
        tg = set()
        for p in pids:
            owned = p in mine
            if cp != ABSENT:
                c = tw.ids.get(cp)
                if owned and c in descendants(k, p, False):
                    tg.add((c, USR1))
            elif ch is True:
                if owned:
                    tg |= set((c, USR1) for c in descendants(k, p, False))
            else:
                if owned and k.procs[p].state == RUNNING:
                    tg.add((p, USR1))
                    if rec is True:
                        tg |= set((c, USR1) for c in descendants(k, p, True))
        return tg
    # kill
    if pid == ABSENT:
        pids = active
    else:
        pids = [p for p in active if p == val]
    tg = set()
    for p in pids:
        tg.add((p, USR1))
        if case.get('stop_children'):
            tg |= set((c, USR1) for c in descendants(k, p, False))
    return tg


def optional_targets(tw, case):
    """A kill request for a worker whose kill is already in flight may join that kill instead of signalling again: the
    property does not say which, so neither is demanded."""
    if tw.state != 'killing' or case['cmd'] != 'kill':
        return set()
    own = tw.ids['own']
    return set((p, USR1) for p in [own] + descendants(tw.w.kernel, own, True))


def run_target_case(r, tw, case):
    w = tw.w
    k = w.kernel
    watcher = 'b' if tw.state == 'stopped' else 'a'
    n0 = len(k.signal_log)
    props = {'name': watcher, 'signum': USR1}
    if case['pid'] != ABSENT:
        props['pid'] = tw.ids[case['pid']]
    if case['cmd'] == 'signal':
        if case['childpid'] != ABSENT:
            props['childpid'] = tw.ids[case['childpid']]
        for f in ('children', 'recursive'):
            if case[f] != ABSENT:
                props[f] = case[f]
    else:
        props['graceful_timeout'] = 50.0
    ref = reference_targets(tw, case, watcher)
    rq = w.request(case['cmd'], **props)
    rep = rq.reply()
    sent = [(pid, s) for (t, pid, s, via) in k.signal_log[n0:]]
    allowed = set()
    wt = w.watcher(watcher)
    for p in (sorted(wt.processes) if wt is not None else []):
        allowed.add(p)
        allowed |= set(descendants(k, p, True))
    c = dict(case, state=tw.state)
    desc = lambda: '%s %s in state %s -> reply %s' % (case['cmd'], json.dumps({k2: v for k2, v in props.items()}),   # noqa
                                                     tw.state, (rep or {}).get('status'))
    stray = [(p, s) for p, s in sent if p not in allowed]
    site = 'commands.%s' % ('sendsignal' if case['cmd'] == 'signal' else 'kill')
    r.check('C18.confined', not stray,
            lambda: desc() + ': signals left the named watcher: %s' % [(p - PID_BASE if p >= PID_BASE else p, s) for p, s in stray],
            site, c, fp='stray-%s-%s' % (case['cmd'], case['pid']), nontrivial=bool(sent))
    if ref is None:
        r.check('C18.refused_clean', rep is not None and rep.get('status') == 'error' and not sent,
                lambda: desc() + ': must be refused without a signal, sent %s' % sent, site, c, fp='refuse-' + case['cmd'])
    else:
        err = rep is not None and rep.get('status') == 'error'
        if err:
            # an error reply is acceptable only if nothing was delivered
            r.check('C18.refused_clean', not sent, lambda: desc() + ': error reply but signals %s were sent' % sent, site, c,
                    fp='error-but-sent-%s' % case['cmd'])
        else:
            opt = optional_targets(tw, case)
            r.check('C18.exact_targets', set(sent) - opt == ref - opt and set(sent) <= ref and len(sent) == len(set(sent)),
                    lambda: desc() + ': delivered %s, reference %s' % (
                        sorted((p - PID_BASE, s) for p, s in sent), sorted((p - PID_BASE, s) for p, s in ref)),
                    site, c, fp='targets-%s-%s-%s' % (case['cmd'], case['pid'], case.get('childpid')),
                    nontrivial=bool(ref))
    if sent or (rep or {}).get('status') == 'error':
        r.nontrivial.add(digest(c))
    r.outcomes.add(digest([case['cmd'], len(sent), (rep or {}).get('status')]))
    return case['cmd'] == 'kill' and bool(sent) or bool(w.stopping_processes())


# ------------------------------------------------------------- designations
def sig_names():
    return sorted(n for n in dir(signal) if n.startswith('SIG') and not n.startswith('SIG_') and
                  isinstance(getattr(signal, n), signal.Signals))


def reference_designation(d):
    """The number a designation denotes, or None if it is not a designation."""
    if isinstance(d, bool):
        return None
    if isinstance(d, int):
        return d if 1 <= d <= 64 else None
    if not isinstance(d, str):
        return None
    s = d.strip()
    if s.isdigit():
        v = int(s)
        return v if 1 <= v <= 64 else None
    base, off = s, 0
    if '+' in s:
        base, _, o = s.partition('+')
        if not o.isdigit() or base.strip() != base:
            return None
        off = int(o)
    name = base.upper()
    if not name.startswith('SIG'):
        name = 'SIG' + name
    if name.startswith('SIG_') or not name.isalnum():
        return None
    val = getattr(signal, name, None)
    if not isinstance(val, signal.Signals):
        return None
    v = int(val) + off
    return v if 1 <= v <= 64 else None


def designations(tier):
    out = []
    names = sig_names()
    for n in names:
        short = n[3:]
        for form in (n, short):
            for variant in (form.upper(), form.lower(), form.capitalize(), form.swapcase() if tier != 'quick' else form.upper()):
                out.append(variant)
    for v in range(1, 65):
        out.append(v)
        out.append(str(v))
    for kk in (0, 1, 2, 30):
        out += ['SIGRTMIN+%d' % kk, 'rtmin+%d' % kk, 'SIGRTMAX+%d' % kk]
    out += [0, -1, 65, 999, '0', '-1', '65', '', ' ', None, 1.5, True, [], {}, 'SIG', 'SIGSIGTERM', 'SIG_IGN', 'SIG_DFL',
            '_IGN', '_DFL', 'SIG_BLOCK', '_UNBLOCK', 'ITIMER_REAL', 'NSIG', 'Signals', 'signal', 'SIGRTMIN+', 'SIGRTMIN+x',
            '+1', 'TERM+0', 'TERM+1', 'KILL+', ' term', 'term ', ' 15', '15 ', '1 5', '0x0f', '15.0', '١٥']
    # one-edit near misses of a few canonical designations
    alphabet = ['X', '1', ' ', '+', '_', '!']
    seeds = ['TERM', 'SIGKILL', 'hup', '15', 'SIGRTMIN+1']
    if tier == 'quick':
        seeds = ['TERM', 'SIGKILL', '15']
    for s in seeds:
        for i in range(len(s) + 1):
            for a in alphabet:
                out.append(s[:i] + a + s[i:])
        for i in range(len(s)):
            out.append(s[:i] + s[i + 1:])
            for a in alphabet:
                out.append(s[:i] + a + s[i + 1:])
    seen, uniq = set(), []
    for d in out:
        key = json.dumps(d, default=repr) + type(d).__name__
        if key not in seen:
            seen.add(key)
            uniq.append(d)
    return uniq


class DWorld(object):
    def __init__(self):
        ign = Behaviour('ign', {'*': ('ignore',)})
        w = World(Chooser(), [WSpec('a', numprocesses=1, graceful_timeout=50.0, behaviours=[ign])])
        w.boot()
        w.run(until=lambda x: x.boot_future.done(), horizon=5)
        self.w = w
        self.pid = sorted(w.watcher('a').processes)[0]

    def close(self):
        self.w.close()


def run_designation(r, dw_holder, d, scratch):
    ref = reference_designation(d)
    if d in (0, '0') and not isinstance(d, bool):
        r.ev('C18.signal_zero_outside_language', True)
        return
    out_of_range = _out_of_range(d)
    case = {'designation': d if isinstance(d, (int, str, type(None), float, bool, list, dict)) else repr(d)}
    results = {}
    # path 1: signal request
    for path in ('signal', 'kill'):
        dw = dw_holder.get()
        w = dw.w
        k = w.kernel
        n0 = len(k.signal_log)
        if path == 'signal':
            rq = w.request('signal', name='a', signum=d)
        else:
            rq = w.request('kill', name='a', signum=d, graceful_timeout=50.0)
        rep = rq.reply()
        sent = [(pid, s) for (t, pid, s, via) in k.signal_log[n0:]]
        ok = rep is not None and rep.get('status') == 'ok'
        results[path] = (ok, sorted(set(s for _, s in sent)))
        if path == 'kill' or w.stopping_processes() or k.procs[dw.pid].state != RUNNING:
            dw_holder.discard()
    # path 3: set stop_signal (JSON ints only are valid there), read back through options
    dw = dw_holder.get()
    w = dw.w
    rq = w.request('set', name='a', options={'stop_signal': d})
    ok = rq.ok()
    val = None
    if ok:
        o = w.ask('options', name='a')
        val = (o or {}).get('options', {}).get('stop_signal')
    results['set'] = (ok, val)
    if ok:
        dw_holder.discard()
    # path 4: add with stop_signal option
    dw = dw_holder.get()
    w = dw.w
    rq = w.request('add', name='n', cmd='sleep 1', options={'stop_signal': d})
    ok = rq.ok()
    val = None
    if ok:
        o = w.ask('options', name='n')
        val = (o or {}).get('options', {}).get('stop_signal')
        dw_holder.discard()
    results['add'] = (ok, val)
    # path 5: ini file
    ini_val, ini_ok = None, None
    if isinstance(d, (int, str)) and not isinstance(d, bool) and '\n' not in str(d) and str(d).strip() != '':
        from circus.config import get_config
        p = scratch.path('s.ini')
        write_ini(p, [('a', {'cmd': 'sleep 1', 'stop_signal': d})])
        try:
            cfg = get_config(p)
            ini_val = cfg['watchers'][0].get('stop_signal')
            ini_ok = True
        except Exception:
            ini_ok = False
        results['ini'] = (ini_ok, ini_val)
    shape = 'valid' if ref is not None else 'invalid'
    desc = lambda: 'designation %r (reference: %s): %s' % (d, ref, json.dumps(results, default=repr))   # noqa: E731
    fp_kind = _kind(d)
    for path in ('signal', 'kill'):
        ok, sigs = results[path]
        if ref is not None:
            r.check('C18.same_meaning', ok and sigs == [ref],
                    lambda: desc() + ': via %s delivered %s' % (path, sigs), 'util.to_signum/' + path, case,
                    fp='meaning-%s-%s' % (path, fp_kind))
        else:
            r.check('C18.refused_clean', (not ok or out_of_range) and not sigs,
                    lambda: desc() + ': not a signal designation but %s answered ok=%s and delivered %s' % (path, ok, sigs),
                    'util.to_signum/' + path, case, fp='accepted-%s-%s' % (path, fp_kind))
    for path in ('set', 'add', 'ini'):
        if path not in results or out_of_range:
            continue
        ok, val = results[path]
        if ok:
            r.check('C18.same_meaning', ref is not None and val is not None and int(val) == ref,
                    lambda: desc() + ': accepted as stop_signal via %s with value %r' % (path, val),
                    'util.to_signum/' + path, case, fp='stopsig-%s-%s' % (path, fp_kind), nontrivial=True)
    if ref is None or any(v[1] for v in results.values() if isinstance(v[1], list)):
        r.nontrivial.add(digest(case))
    r.outcomes.add(digest([shape, json.dumps(results, default=repr)]))


def _out_of_range(d):
    """A number (or name+offset) that is well-formed but not a signal number of this platform."""
    if isinstance(d, bool):
        return False
    if isinstance(d, int):
        return not (1 <= d <= 64)
    if isinstance(d, str):
        s = d.strip()
        if s.isdigit():
            return not (1 <= int(s) <= 64)
        if '+' in s:
            base, _, o = s.partition('+')
            if o.isdigit() and reference_designation(base) is not None:
                return reference_designation(base) + int(o) > 64
    return False


def _kind(d):
    if isinstance(d, bool) or d is None or isinstance(d, (float, list, dict)):
        return 'type-' + type(d).__name__
    if isinstance(d, int):
        return 'int-in' if 1 <= d <= 64 else 'int-out'
    s = d
    if s.strip().lstrip('-').isdigit():
        return 'numstr'
    if 'SIG_' in s.upper() or s.upper().startswith('_'):
        return 'sig_-constant'
    if any(ch in s for ch in '! '):
        return 'junk-char'
    if '+' in s:
        return 'offset'
    return 'name'


class Holder(object):
    def __init__(self, factory):
        self.factory = factory
        self.cur = None

    def get(self):
        if self.cur is None:
            self.cur = self.factory()
        return self.cur

    def discard(self):
        if self.cur is not None:
            try:
                self.cur.close()
            finally:
                self.cur = None


def shards(tier):
    out = []
    n = len(target_cases())
    for st in STATES:
        for i in range(0, n, 60):
            out.append(('targets', st, i, i + 60))
    nd = len(designations(tier))
    for i in range(0, nd, 40):
        out.append(('desig', i, i + 40))
    # the meaning of a designation must not depend on what was resolved before it in the same daemon
    out.append(('desig-seq', 0, 0))
    out.append(('desig-seq', 1, 0))
    out.append(('desig-seq', 2, 0))
    out.append(('desig-seq', 3, 0))
    return out


SEQ = ['SIGRTMIN+1', 'rtmin', 'SIGRTMIN+2', 'TERM+1', 'term', 15, 'SIGTERM', 'usr1+1', 'USR1', 'SIGRTMIN', 'rtmin+1', '15',
       'kill', 'KILL+0', 'hup+2', 'HUP']


# values that compare (and hash) equal to a valid designation without being one: True == 1, 10.0 == 10
SEQ2 = [1, True, 1.0, 10, 10.0, '10', 15, 15.0, '15', 2, 2.0, False, 0, 0.0, 12, 12.0, True, 1]


def _run_designation_seq(r, seq):
    """The whole sequence through the `signal` request of ONE daemon (nothing is re-created in between, so whatever the
    daemon remembers about earlier designations is still there): each answer must be what a fresh daemon gives."""
    dw = DWorld()
    try:
        w, k = dw.w, dw.w.kernel
        hist = []
        for d in seq:
            ref = reference_designation(d)
            if ref in (9, 19) or (d in (0, '0') and not isinstance(d, bool)) or _out_of_range(d):
                continue          # uncatchable signals would end the daemon's only worker; 0 / out of range: see above
            r.cases += 1
            n0 = len(k.signal_log)
            rq = w.request('signal', name='a', signum=d)
            rep = rq.reply()
            ok = rep is not None and rep.get('status') == 'ok'
            sigs = sorted(set(s for (t, pid, s, via) in k.signal_log[n0:]))
            case = {'designation_sequence': [x if isinstance(x, (int, str, float, bool, type(None))) else repr(x)
                                             for x in hist + [d]]}
            if ref is not None:
                r.check('C18.same_meaning', ok and sigs == [ref],
                        lambda: 'designation %r (reference %s) after %r in the same daemon: ok=%s delivered %s'
                        % (d, ref, hist, ok, sigs), 'util.to_signum/history', case, fp='seq-meaning-%s' % _kind(d))
            else:
                r.check('C18.refused_clean', not ok and not sigs,
                        lambda: '%r is not a signal designation but after %r in the same daemon the signal request answered '
                        'ok=%s and delivered %s' % (d, hist, ok, sigs), 'util.to_signum/history', case,
                        fp='seq-accepted-%s' % _kind(d))
            hist.append(d)
    finally:
        dw.close()


def run_shard(shard, tier):
    r = EnumResult()
    if shard[0] == 'targets':
        _, st, lo, hi = shard
        holders = {}
        try:
            for case in target_cases()[lo:hi]:
                r.cases += 1
                sc = bool(case.get('stop_children'))
                h = holders.setdefault(sc, Holder(lambda sc=sc: TWorld(st, sc)))
                try:
                    dirty = run_target_case(r, h.get(), case)
                except Abort as e:
                    r.fail('C18.no_exception', 'blocked: %s' % e, 'loop', case, fp='blocked')
                    dirty = True
                if dirty:
                    h.discard()
                if len(r.samples) < 2:
                    r.samples.append(dict(case, state=st))
        finally:
            for h in holders.values():
                h.discard()
        return r
    _, lo, hi = shard
    scratch = Scratch()
    h = Holder(DWorld)
    todo = designations(tier)[lo:hi]
    if shard[0] == 'desig-seq':
        base = SEQ if lo in (0, 1) else SEQ2
        todo = base if lo in (0, 2) else list(reversed(base))
        todo = todo + todo
    try:
        if shard[0] == 'desig-seq':
            _run_designation_seq(r, todo)
        for d in todo:
            r.cases += 1
            run_designation(r, h, d, scratch)
            if len(r.samples) < 3:
                r.samples.append({'designation': d})
    finally:
        h.discard()
        scratch.close()
    return r


def replay_case(case):
    r = EnumResult()
    if 'designation_sequence' in case:
        _run_designation_seq(r, case['designation_sequence'])
        return [(v['clause'], v['detail'], v['where']) for v in r.violations
                if v.get('case', {}).get('designation_sequence') == case['designation_sequence']]
    if 'designation' in case:
        scratch = Scratch()
        h = Holder(DWorld)
        try:
            run_designation(r, h, case['designation'], scratch)
        finally:
            h.discard()
            scratch.close()
    else:
        st = case.get('state', 'active')
        tw = TWorld(st, bool(case.get('stop_children')))
        try:
            run_target_case(r, tw, case)
        finally:
            tw.close()
    return [(v['clause'], v['detail'], v['where']) for v in r.violations]

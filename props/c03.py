"""C03 — Graceful termination: stop signal first, SIGKILL only after the grace period."""
import signal

from props.common import *      # noqa: F401,F403
from props.common import Window, finish, G
from vt.clock import CLOCK
from vt.events import Req, EXIT1, KILLED9
from vt.explorer import Result, digest
from vt.runner import Scenario
from vt.simkernel import Behaviour, OBEDIENT, STUBBORN, slow, PID_BASE, RUNNING
from vt.world import World, WSpec, Abort

ID = 'C03'
KIND = 'explorer'
LEVEL = 'model_checking'
LIVE = {'thorough': ['stubborn-stop']}
BUDGET = {'quick': 900, 'thorough': 10800}
RULE = ('full product stop_signal x graceful_timeout x worker reaction delay (0.05 s grid from 0 to g+0.2, including '
        'd=g exactly with the tie explored both ways) x termination cause x stop_children/process tree, each run on '
        'the real daemon under virtual time; plus, on a sub-grid, one extra worker death at every loop-iteration '
        'boundary and before every kernel call; oracle over the simulated kernel\'s per-pid signal log')
ASSUMPTIONS = ['polling step of the kill loop is 0.1 s (kill_process); tolerance 1e-4 s on virtual timestamps',
               'a before_signal hook that vetoes the stop signal is covered by C14']

CAUSES = ['stop', 'restart', 'decr', 'reload', 'reload-seq', 'reload-term', 'kill', 'kill-signum', 'kill-gt',
          'kill-gt0', 'kill-gt-small', 'kill-pid', 'max_age', 'set-np', 'set-gt+stop', 'set-sig+stop', 'set-gt+decr',
          'badkill+stop', 'kill-long+stop', 'reject']
SIGS = {'TERM': signal.SIGTERM, 'INT': signal.SIGINT, 'QUIT': signal.SIGQUIT, 'USR1': signal.SIGUSR1}
TOL = 1e-4
STEP = 0.1


def delays(g):
    out, d = [], 0.0
    while d <= g + 0.2 + 1e-9:
        out.append(round(d, 2))
        d += 0.05
    if g not in out:
        out.append(g)
    return sorted(set(out))


def scenarios(tier):
    out = []
    if tier == 'quick':
        sigs, gs = ['TERM', 'USR1'], [0, 0.1, 0.25]
    else:
        sigs, gs = ['TERM', 'INT', 'QUIT', 'USR1'], [0, 0.1, 0.25, 1.05]
    for sg in sigs:
        for g in gs:
            for d in delays(g) + ['never']:
                for cause in CAUSES:
                    if tier == 'quick' and sg != 'TERM' and cause not in ('stop', 'kill', 'decr'):
                        continue
                    out.append(Scenario('term', sig=sg, g=g, d=d, cause=cause, tree=None, sc=False, E=0, nodet=True))
    # process trees
    trees = [('c',), ('c', 'g')]
    for tree in trees:
        for cb in ('obedient', 'stubborn'):
            for sc in (False, True):
                for d in (0.0, 0.1, 'never'):
                    for cause in ('stop', 'kill', 'decr', 'reload', 'set-sc+stop'):
                        out.append(Scenario('term', sig='TERM', g=0.25, d=d, cause=cause, tree=list(tree), cb=cb,
                                            sc=sc, E=0, nodet=True))
    # one extra death anywhere
    ds = [0.0, 0.1, 0.2, 0.25, 0.3, 'never'] if tier == 'quick' else delays(0.25) + ['never']
    for d in ds:
        for cause in CAUSES:
            out.append(Scenario('term', sig='TERM', g=0.25, d=d, cause=cause, tree=None, sc=False, E=1))
    if tier == 'thorough':
        for d in (0.0, 0.1, 'never'):
            for cause in ('stop', 'kill', 'decr'):
                out.append(Scenario('term', sig='TERM', g=0.25, d=d, cause=cause, tree=['c'], cb='obedient', sc=True, E=1))
    # stop_children with one of the children (or the worker) dying anywhere, also between the listing of the children and
    # the delivery to each of them
    for tree in (['c'], ['c', 'c']):
        for d in ((0.0, 'never') if tier == 'quick' else (0.0, 0.1, 'never')):
            for cause in (('stop', 'kill') if tier == 'quick' else ('stop', 'kill', 'decr', 'reload')):
                out.append(Scenario('term', sig='TERM', g=0.25, d=d, cause=cause, tree=list(tree), cb='obedient', sc=True, E=1,
                                    kids_die=True))
    return out


def bound(tier, scn):
    return scn.E


def bounds(tier):
    return {'stop_signal': ['TERM', 'USR1'] if tier == 'quick' else list(SIGS), 'graceful_timeout': [0, 0.1, 0.25] + ([] if tier == 'quick' else [1.05]),
            'reaction_delay_grid': 0.05, 'causes': CAUSES, 'trees': ['none', 'child', 'child+grandchild'],
            'extra_deaths': '<=1 on the g=0.25/TERM sub-grid', 'numprocesses': 2}


def _behaviour(scn):
    kids = ()
    if scn.tree:
        cb = OBEDIENT if scn.cb == 'obedient' else STUBBORN
        if list(scn.tree) == ['c', 'c']:
            kids = (cb, cb)
        elif len(scn.tree) == 2:
            kids = (Behaviour(cb.name + '+g', cb.reactions, children=(cb,)),)
        else:
            kids = (cb,)
    if scn.d == 'never':
        return Behaviour('stubborn', {'*': ('ignore',)}, children=kids)
    return Behaviour('slow(%s)' % scn.d, {'*': ('die', float(scn.d))}, children=kids)


def run(scn, ch):
    res = Result()
    g = float(scn.g)
    sig = int(SIGS[scn.sig])
    opts = dict(graceful_timeout=g, stop_signal=sig, stop_children=scn.sc)
    if scn.cause == 'max_age':
        opts.update(max_age=1, max_age_variance=0)
    if scn.cause == 'reject':
        # the after_spawn hook refuses the third worker (the one an incr adds): it is terminated like any other - and so
        # are its siblings, the watcher being stopped
        from props.common import nth_hook

        class _W(object):
            hook_calls = []
        opts['hooks'] = {'after_spawn': (nth_hook(_W, 3, False), False)}
    world = World(ch, [WSpec('a', numprocesses=2, behaviours=[_behaviour(scn)], **opts),
                       WSpec('z', numprocesses=1, graceful_timeout=9.0, stop_signal=int(signal.SIGUSR2))])
    win = Window(world)
    world.eff_sc = scn.sc
    world.deaths_include_descendants = bool(scn.p.get('kids_die'))
    try:
        world.boot()
        world.run(until=lambda w: w.boot_future.done(), horizon=5)
        world.run(horizon=0.5)
        initial = [p.pid for p in world.kernel.running_workers()]
        win.open = scn.E > 0
        exp_sig, exp_g = sig, g
        c = scn.cause
        t_cause = CLOCK.now
        if c == 'stop':
            world.request('stop', name='a')
        elif c == 'restart':
            world.request('restart', name='a')
        elif c == 'decr':
            world.request('decr', name='a')
        elif c == 'reload':
            world.request('reload', name='a')
        elif c == 'reload-seq':
            world.request('reload', name='a', sequential=True)
        elif c == 'reload-term':
            world.request('reload', name='a', graceful=False)
        elif c == 'kill':
            world.request('kill', name='a')
        elif c == 'kill-signum':
            exp_sig = int(signal.SIGUSR2)
            world.request('kill', name='a', signum='usr2')
        elif c == 'kill-gt':
            exp_g = 0.5
            world.request('kill', name='a', graceful_timeout=0.5)
        elif c == 'kill-gt0':
            exp_g = 0.0
            world.request('kill', name='a', graceful_timeout=0)
        elif c == 'kill-gt-small':
            exp_g = 0.05
            world.request('kill', name='a', graceful_timeout=0.05)
        elif c == 'kill-pid':
            world.request('kill', name='a', pid=initial[0])
        elif c == 'set-np':
            world.request('set', name='a', options={'numprocesses': 1})
        elif c in ('set-gt+stop', 'set-sig+stop', 'set-gt+decr', 'set-sc+stop'):
            # the settings in force are the ones a `set` request installed
            if c.startswith('set-gt'):
                exp_g = 0.5 if g != 0.5 else 0.3
                rq = world.request('set', name='a', options={'graceful_timeout': exp_g})
            elif c.startswith('set-sig'):
                exp_sig = int(signal.SIGUSR2)
                rq = world.request('set', name='a', options={'stop_signal': int(signal.SIGUSR2)})
            else:
                world.eff_sc = not scn.sc
                rq = world.request('set', name='a', options={'stop_children': world.eff_sc})
            world.run(until=lambda w: rq.replied() and w.slot() is None, horizon=1.0)
            t_cause = CLOCK.now
            world.request('decr' if c.endswith('decr') else 'stop', name='a')
        elif c == 'kill-long+stop':
            # a kill request with a long grace period of its own is still waiting when the stop arrives: the stop waits
            # for it (and the SIGKILL of the kill request is the one that ends a worker ignoring the signal)
            world.request('kill', name='a', graceful_timeout=1.0)
            exp_g = 1.0
            world.run(horizon=0.2)
            world.request('stop', name='a')
        elif c == 'badkill+stop':
            # a kill request whose signal number the kernel rejects (EINVAL) fails; the next termination is an ordinary one
            rq = world.request('kill', name='a', signum=100)
            world.run(until=lambda w: rq.replied(), horizon=1.0)
            world.run(horizon=0.2)
            t_cause = CLOCK.now
            world.request('stop', name='a')
        elif c == 'reject':
            world.request('incr', name='a')
        elif c == 'max_age':
            pass
        horizon = 2.5 + 4 * exp_g + (1.5 if c == 'max_age' else 0)
        world.run(until=lambda w: False, horizon=horizon, menu=win.menu, tie_cost=0)
        win.open = False
        _oracle(world, scn, res, exp_sig, exp_g, t_cause, CLOCK.now)
        res.outcome = digest([[(round(t - t_cause, 3), pid - PID_BASE, s) for (t, pid, s, via) in world.kernel.signal_log],
                              [(p.pid - PID_BASE, p.state) for p in world.kernel.spawn_log]])
        return finish(world, res)
    except Abort as e:
        res.check('C03.completes', False, 'cause %s: the daemon blocked: %s at %s' % (scn.cause, e, CLOCK.blocked_where),
                  where=world.blocked_site())
        return finish(world, res, aborted=str(e))


def _oracle(world, scn, res, exp_sig, exp_g, t_cause, t_end):
    k = world.kernel
    KILL = int(signal.SIGKILL)
    site = 'watcher.kill_process'
    zsig = [(t, pid, s) for (t, pid, s, via) in k.signal_log if via != 'os.kill' and k.procs[pid].watcher == 'z']
    res.check('C03.bystander_not_signalled', not zsig, lambda: 'workers of the bystander watcher z were signalled: %s' % zsig,
              where='watcher.send_signal')
    if scn.cause.endswith('stop') and scn.cause != 'kill-long+stop' and scn.E == 0:
        # a stop terminates every worker the watcher had: each of them that was still running gets the stop signal
        for p in k.spawn_log:
            if p.watcher == 'a' and p.spawn_time < t_cause - TOL and (p.death_time is None or p.death_time > t_cause + TOL):
                got = [s for (t, s, via) in p.signals if via != 'os.kill' and t >= t_cause - TOL and s == exp_sig]
                res.check('C03.stop_signal_delivered', bool(got),
                          lambda: 'worker %d was running when %s was requested at t=%.3f and never got signal %d (signals: %s)'
                          % (p.pid - PID_BASE, scn.cause, t_cause, exp_sig, p.signals), where=site)
    for p in k.spawn_log:
        if p.watcher != 'a':
            continue
        sigs = [(t, s, via) for (t, s, via) in p.signals if via != 'os.kill' and s != 0]
        if scn.cause == 'badkill+stop':
            sigs = [x for x in sigs if x[0] >= t_cause - TOL]       # the rejected signal of the failed kill is not an episode
        if not sigs:
            continue
        t0, s0, _ = sigs[0]
        # max_age / reload spawn replacement workers that are not terminated: every episode is judged alike
        res.check('C03.first_is_stop_signal', s0 == exp_sig,
                  lambda: 'worker %d: first signal sent is %d, the stop signal in force is %d (cause %s)'
                  % (p.pid - PID_BASE, s0, exp_sig, scn.cause), where=site)
        kills = [(t, s) for (t, s, via) in sigs if s == KILL]
        died = p.death_time
        for tk, _ in kills[:1]:
            res.check('C03.no_early_kill', tk >= t0 + exp_g - TOL,
                      lambda: 'worker %d: SIGKILL at +%.3fs, graceful_timeout %.2fs' % (p.pid - PID_BASE, tk - t0, exp_g),
                      where=site, nontrivial=exp_g > 0)
        in_time = died is not None and died < t0 + exp_g - TOL
        if in_time:
            late = [tk for tk, _ in kills if tk > died - TOL]
            res.check('C03.no_kill_if_exited_in_time', not late,
                      lambda: 'worker %d exited at +%.3fs (< graceful_timeout %.2fs) but got SIGKILL at +%.3fs'
                      % (p.pid - PID_BASE, died - t0, exp_g, late[0] - t0),
                      where='watcher.kill_process/escalation-without-liveness-check')
        alive_at_g = died is None or died > t0 + exp_g + TOL
        # only episodes whose whole window lies inside the run are judged for the escalation
        if alive_at_g and t0 + exp_g + STEP + TOL < t_end:
            # still running when the grace period ended: SIGKILL within one polling step
            ok = any(tk <= t0 + exp_g + STEP + TOL for tk, _ in kills)
            # ... unless it died by itself inside that last step (then no SIGKILL is owed)
            died_in_step = died is not None and died <= t0 + exp_g + STEP + TOL and not kills
            res.check('C03.kill_within_step', ok or died_in_step,
                      lambda: 'worker %d still alive at +%.2fs (graceful_timeout) but SIGKILL times are %s'
                      % (p.pid - PID_BASE, exp_g, [round(tk - t0, 3) for tk, _ in kills]), where=site)
        # children
        kids = [c for c in k.procs.values() if c.role == 'child' and _root(k, c, p)]
        if kids:
            for c in kids:
                csig = [(t, s) for (t, s, via) in c.signals]
                alive_t0 = c.death_time is None or c.death_time >= t0
                # the worker itself was still alive when its first signal was sent (a worker that died by itself just
                # before - same instant, earlier in the kernel's event order - has no children any more)
                first_seq = min([sq for sq, (t, pid, s, via) in zip(k.signal_seq, k.signal_log) if pid == p.pid and via != 'os.kill'] or [0])
                worker_alive_at_first = p.death_seq is None or p.death_seq > first_seq
                # ... and so was the child: children are signalled before the worker, so a child that outlived the worker's
                # first signal (kernel event order) was alive for the whole delivery
                if first_seq and c.death_seq is not None and c.death_seq < first_seq:
                    alive_t0 = False
                if world.eff_sc and alive_t0 and worker_alive_at_first and _was_child_at(world, c, p, t0):
                    res.check('C03.children_stop', any(abs(t - t0) <= TOL and s == exp_sig for t, s in csig),
                              lambda: 'stop_children: child %d of worker %d did not get signal %d at the stop (%s)'
                              % (c.pid - PID_BASE, p.pid - PID_BASE, exp_sig, csig),
                              where='process.send_signal_child/worker-died-before-children-relisted'
                              if (died is not None and abs(died - t0) <= TOL) else 'watcher.send_signal_process')
                if not world.eff_sc:
                    res.check('C03.children_no_stop', not any(s == exp_sig and exp_sig != KILL for t, s in csig),
                              lambda: 'stop_children off but child %d got the stop signal' % (c.pid - PID_BASE),
                              where='watcher.kill_process')
                for tk, _ in kills[:1]:
                    alive_tk = (c.death_time is None or c.death_time >= tk - TOL)
                    worker_alive_tk = died is None or died >= tk - TOL
                    # still a descendant at that instant: every process between it and the worker is alive (a process
                    # whose parent has died is re-parented to init and no longer belongs to the worker's tree)
                    in_tree, q = True, c.orig_parent
                    while q is not None and q is not p:
                        if q.death_time is not None and q.death_time < tk - TOL:
                            in_tree = False
                        q = q.orig_parent
                    if alive_tk and worker_alive_tk and in_tree:
                        res.check('C03.children_kill', any(abs(t - tk) <= TOL and s == KILL for t, s in csig),
                                  lambda: 'descendant %d of worker %d alive at the SIGKILL but not killed (%s)'
                                  % (c.pid - PID_BASE, p.pid - PID_BASE, csig),
                                  where='process.send_signal_child/worker-died-before-children-relisted'
                                  if (died is not None and abs(died - tk) <= TOL) else 'watcher.send_signal_process')


def _root(k, c, p):
    return c.watcher == p.watcher and getattr(c, 'root_pid', None) == p.pid or _descends(k, c, p)


def _descends(k, c, p):
    # children are created right after their worker: pids p+1.. until the next worker
    nxt = [q.pid for q in k.spawn_log if q.pid > p.pid]
    hi = min(nxt) if nxt else 10 ** 12
    return p.pid < c.pid < hi


def _was_child_at(world, c, p, t0):
    # direct child of the worker (stop_children signals direct children only)
    return c.pid == p.pid + 1

"""C17 — Captured worker output is delivered complete, in order, once, correctly labelled."""
import itertools
import os

from props.common import *
from props.common import Scratch      # noqa: F401,F403
from props.common import Window, finish, G
from vt.clock import CLOCK
from vt.events import Req, Die, Call, EXIT1, KILLED9
from vt.explorer import Result, digest
from vt.runner import Scenario
from vt.simkernel import PID_BASE, RUNNING, OBEDIENT
from vt.world import World, WSpec, Abort

ID = 'C17'
KIND = 'explorer'
LEVEL = 'model_checking'
BUDGET = {'quick': 900, 'thorough': 10800}
RULE = ('real pipes between simulated workers and the real Redirector on the real selector loop; all sequences of <= L '
        'worker-side events (write k bytes on stdout/stderr with k in {1, 1023, 1024, 1025, 2500}, close a channel, exit) for 1-2 '
        'workers x 2 drain disciplines (loop runs after every event / only at the end), with <= E daemon-side events (sibling '
        'dies, sibling killed by request, incr, decr, restart of another watcher, ready descriptors served in reverse order) at '
        'every loop-iteration boundary; payload bytes encode (pid, channel, offset); plus 50 death/respawn generations for the '
        'descriptor count')
ASSUMPTIONS = ['pipe capacity (64 KiB) is never reached by the enumerated writes, so worker-side writes never block',
               'completeness is judged for workers the daemon did not itself terminate before the final drain; for the others '
               'what was delivered must still be an in-order, correctly labelled prefix']

SIZES = [1, 1023, 1024, 1025, 2500]


def payload(pid, ch, off, k):
    unit = ('%d:%s:' % (pid - PID_BASE, ch)).encode()
    out = bytearray()
    i = off
    while len(out) < k:
        chunk = unit + str(i + len(out)).encode() + b';'
        out += chunk
    return bytes(out[:k])


def worker_menu(tier, n):
    m = [('w', 0, 'stdout', 1), ('w', 0, 'stdout', 1025), ('w', 0, 'stdout', 2500), ('w', 0, 'stderr', 1024),
         ('c', 0, 'stdout'), ('x', 0)]
    if tier != 'quick':
        m += [('w', 0, 'stdout', 1023), ('w', 0, 'stderr', 1), ('c', 0, 'stderr')]
    if n == 2:
        m += [('w', 1, 'stdout', 1023), ('w', 1, 'stderr', 2500)]
        if tier != 'quick':
            m += [('x', 1), ('c', 1, 'stdout')]
    return m


def scenarios(tier):
    out = []
    L = 3 if tier == 'quick' else 4
    for n in (1, 2):
        menu = worker_menu(tier, n)
        for length in range(1, L + 1):
            for seq in itertools.product(range(len(menu)), repeat=length):
                evs = [menu[i] for i in seq]
                # after an exit / close, later writes on that channel are impossible
                if not _feasible(evs):
                    continue
                for drain in ('each', 'end'):
                    if tier == 'quick':
                        E = 2 if (length <= 1 and n == 2) else (1 if (length <= 2 and n == 2) else 0)
                    else:
                        E = 2 if (length <= 1 and n == 2) else (1 if (length <= 3 and n == 2) else 0)
                    out.append(Scenario('io', n=n, evs=[list(e) for e in evs], drain=drain, E=E, nodet=(E == 0)))
    # dense periodic checks + workers that take 0.15 s to die: a kill's polling window then straddles a reap/respawn tick
    menu2 = worker_menu(tier, 2)
    for length in (1, 2):
        for seq in itertools.product(range(len(menu2)), repeat=length):
            evs = [menu2[i] for i in seq]
            if _feasible(evs) and (tier != 'quick' or all(e[0] == 'w' for e in evs)):
                out.append(Scenario('io', n=2, evs=[list(e) for e in evs], drain='each', E=1 if tier == 'quick' else 2,
                                    tick=0.13, beh='slow'))
    # workers that answer the stop signal with a last burst of output and die 0.15 s later, with a check period (0.13 s)
    # that lets the periodic check collect them between two polls of the kill that is waiting for them
    for evs in ([['w', 0, 'stdout', 1]], [['w', 1, 'stdout', 1023]]):
        for tick in (0.13, 0.175):
            out.append(Scenario('io', n=2, evs=evs, drain='each', E=1 if tier == 'quick' else 2, tick=tick, beh='lastwords'))
    # a worker that leaves more than a few read buffers behind (6000 / 20000 / 70000 bytes, the last one more than a pipe
    # holds at once) and exits: whoever reaps it first, everything it wrote arrives
    for size in (6000, 20000):
        for drain in ('each', 'end'):
            out.append(Scenario('io', n=2, evs=[['w', 0, 'stdout', size], ['x', 0]], drain=drain, E=1))
            out.append(Scenario('io', n=2, evs=[['w', 0, 'stderr', size], ['w', 0, 'stdout', 1], ['x', 0]], drain=drain, E=1))
    # the stdout stream of watcher a is a FileStream given by file name: a `set stdout_stream.filename` request builds a new
    # stream object and closes the old one while the worker keeps running; what it writes afterwards must reach the new file
    menu3 = [e for e in worker_menu(tier, 1) if e[0] == 'w' and e[2] == 'stdout']
    for length in (1, 2):
        for seq in itertools.product(range(len(menu3)), repeat=length):
            evs = [menu3[i] for i in seq]
            out.append(Scenario('io', n=1, evs=[list(e) for e in evs], drain='each', E=1 if tier == 'quick' else 2, fs=True))
    out.append(Scenario('cycles', reps=50 if tier != 'quick' else 50, nodet=True))
    return out


def _feasible(evs):
    closed, dead = set(), set()
    for e in evs:
        if e[0] == 'x':
            if e[1] in dead:
                return False
            dead.add(e[1])
        elif e[0] == 'c':
            if (e[1], e[2]) in closed or e[1] in dead:
                return False
            closed.add((e[1], e[2]))
        else:
            if (e[1], e[2]) in closed or e[1] in dead:
                return False
    return True


def bound(tier, scn):
    return scn.p.get('E', 0)


def bounds(tier):
    return {'workers': [1, 2], 'worker_events_per_sequence': 3 if tier == 'quick' else 4, 'write_sizes': SIZES,
            'read_buffer': 1024, 'daemon_events': bound(tier, Scenario('io', E=1)), 'generations_for_fd_count': 50}


class BadSet(object):
    def __init__(self, path):
        self.path = path
        self.label = 'set(a.stdout_stream.filename=<missing dir>)'

    def apply(self, world):
        world.bad_set_done = True
        rq = world.request('set', name='a', options={'stdout_stream.filename': self.path})
        # whatever the answer, the file name the watcher was configured with is A.log again for what follows
        try:
            world.watcher('a').stdout_stream_conf['filename'] = world.fs_a_path
        except Exception:
            pass
        return rq


class Collector(object):
    def __init__(self, channel, log):
        self.channel = channel
        self.log = log

    def __call__(self, data):
        self.log.append((CLOCK.now, self.channel, data.get('pid'), data.get('name'), bytes(data.get('data'))))


def daemon_fds(world):
    n = len(os.listdir('/proc/self/fd'))
    held = sum(1 for p in world.kernel.procs.values() for fd in (p.out_w, p.err_w) if fd is not None)
    return n - held


def run(scn, ch):
    res = Result()
    log = []
    if scn.name == 'cycles':
        return _run_cycles(scn, ch, res, log)
    n = scn.n
    from vt.simkernel import slow
    beh = [slow(0.15)] if scn.p.get('beh') == 'slow' else None
    if scn.p.get('beh') == 'lastwords':
        from vt.simkernel import Behaviour
        beh = [Behaviour('slow+lastwords', {'*': ('die', 0.15)}, last_words=1500)]
    fs = bool(scn.p.get('fs'))
    scratch = Scratch() if fs else None
    world = World(ch, [WSpec('a', numprocesses=n, graceful_timeout=0.5 if beh else 0.1, behaviours=beh,
                             stdout_stream=({'filename': scratch.path('A.log')} if fs else {'stream': Collector('stdout', log)}),
                             stderr_stream={'stream': Collector('stderr', log)}),
                       WSpec('b', numprocesses=1, graceful_timeout=0.1,
                             stdout_stream={'stream': Collector('stdout', log)})],
                  check_delay=scn.p.get('tick', 1.0))
    written = {}
    world.fs_a_path = scratch.path('A.log') if fs else None

    def extra(world):
        evs = [Req('incr', name='a'), Req('decr', name='a'), Req('restart', label='restart(b)', name='b'),
               Req('restart', label='restart(a)', name='a'), Req('reload', label='reload(a)', name='a'),
               Req('set', label='set(a.stdout_stream.x)', name='a', options={'stdout_stream.x': 'y'})]
        if fs:
            evs[-1] = Req('set', label='set(a.stdout_stream.filename)', name='a',
                          options={'stdout_stream.filename': scratch.path('B.log')})
            # ... and one that cannot be carried out (the directory does not exist): refused, the stream in place stays
            if not getattr(world, 'bad_set_done', False):
                evs.append(BadSet(scratch.path('no-such-dir/x.log')))
        ws = sorted(world.watcher('a').processes) if world.watcher('a') else []
        if len(ws) >= 2:
            evs.append(Req('kill', label='kill(sibling)', name='a', pid=ws[1]))
        return evs

    win = Window(world, kpoints=False, statuses=(EXIT1,), lmenu=extra)
    # ready descriptors may be served in reverse order (one deviation)

    def order_hook(ready):
        if win.open:
            c = world.ex.choose('fdorder', ['ascending', 'reversed'])
            if c == 1:
                return list(reversed(ready))
        return ready
    world.loop.vsel.order_hook = order_hook

    def sibling_deaths(w):
        return [e for e in Window.menu(win, w) if True]
    try:
        world.boot()
        world.run(until=lambda w: w.boot_future.done(), horizon=5)
        world.run(horizon=0.2)
        ws = sorted(world.watcher('a').processes)
        procs = [world.kernel.procs[p] for p in ws]
        terminated_by_daemon = set()

        def menu(w):
            # only the sibling (worker 1) and watcher b are disturbed; worker 0 is the observed writer
            out = []
            for e in win.menu(w):
                lab = e.label
                if lab.startswith('die(') and ('a#%d' % (ws[0] - PID_BASE)) in lab:
                    continue
                out.append(e)
            return out

        win.open = scn.E > 0
        for ev in scn.evs:
            kind, wi = ev[0], ev[1]
            p = procs[wi]
            if kind == 'w':
                chn, k = ev[2], ev[3]
                fd = p.out_w if chn == 'stdout' else p.err_w
                if p.state == RUNNING and fd is not None:
                    off = len(written.get((p.pid, chn), b''))
                    data = payload(p.pid, chn, off, k)
                    os.write(fd, data)
                    written[(p.pid, chn)] = written.get((p.pid, chn), b'') + data
                    world.trace.append((CLOCK.now, 'worker-write', p.pid - PID_BASE, chn, k))
            elif kind == 'c':
                chn = ev[2]
                attr = 'out_w' if chn == 'stdout' else 'err_w'
                fd = getattr(p, attr)
                if fd is not None:
                    os.close(fd)
                    setattr(p, attr, None)
                    world.trace.append((CLOCK.now, 'worker-close', p.pid - PID_BASE, chn))
            elif kind == 'x':
                world.die(p.pid, EXIT1)
            if scn.drain == 'each':
                _drain(world, res, menu)
            else:
                world.step(menu)
        _drain(world, res, menu)
        win.open = False
        # let a periodic check pass (respawns), then a final drain
        world.run(horizon=max(1.0, world.check_delay) + 0.01)
        _drain(world, res, None)
        # epilogue: every worker alive now (respawned successors included) writes on both channels; this output
        # must arrive too - a successor whose descriptors were unregistered by a late clean-up of its predecessor
        # (descriptor numbers are reused) would stay mute
        for p in world.kernel.running_workers():
            for chn, fd in (('stdout', p.out_w), ('stderr', p.err_w)):
                if fd is not None:
                    off = len(written.get((p.pid, chn), b''))
                    data = payload(p.pid, chn, off, 7)
                    os.write(fd, data)
                    written[(p.pid, chn)] = written.get((p.pid, chn), b'') + data
        _drain(world, res, None)
        for (t, pid, s, via) in world.kernel.signal_log:
            terminated_by_daemon.add(pid)
        said_pids = set()
        for p in world.kernel.spawn_log:
            if getattr(p, 'said', None):
                written[(p.pid, 'stdout')] = written.get((p.pid, 'stdout'), b'') + p.said
                said_pids.add(p.pid)
        # what a worker says while dying from the daemon's stop signal is output like any other
        terminated_by_daemon -= said_pids
        if fs:
            _judge_files(world, res, scratch, written, terminated_by_daemon, procs[0])
            for key in [k for k in written if k[1] == 'stdout' and (world.kernel.procs[k[0]].watcher or '') == 'a']:
                del written[key]
        _judge(world, res, log, written, terminated_by_daemon)
        res.outcome = digest([[(c, pid - PID_BASE if pid else None, nm, len(d)) for (_, c, pid, nm, d) in log]])
        return finish(world, res)
    except Abort as e:
        res.check('C17.no_spin', False, 'aborted: %s' % e, where=world.blocked_site())
        return finish(world, res, aborted=str(e))
    finally:
        if scratch is not None:
            # the FileStreams of this execution must not stay open in the long-lived explorer process (the fd-count
            # scenario of a later execution would see them)
            for w_ in getattr(world.arbiter, 'watchers', []) or []:
                for st in (w_.stdout_stream, w_.stderr_stream):
                    if st is not None and hasattr(st, 'close') and type(st).__name__ == 'FileStream':
                        try:
                            st.close()
                        except Exception:
                            pass
            if not world.closed:
                world.close()
            scratch.close()


def _judge_files(world, res, scratch, written, terminated, first):
    """File mode: watcher a's stdout goes to A.log, then (after a `set stdout_stream.filename`) to B.log.  The observed
    worker is the only writer until the epilogue, where every live worker of the watcher adds one short record."""
    content = b''
    for nm in ('A.log', 'B.log'):
        if os.path.exists(scratch.path(nm)):
            with open(scratch.path(nm), 'rb') as f:
                content += f.read()
    rest = content
    for (pid, chan), data in written.items():
        if chan != 'stdout' or pid == first.pid or (world.kernel.procs[pid].watcher or '') != 'a':
            continue
        if pid in terminated:
            i = rest.find(data)
            if i >= 0:
                rest = rest[:i] + rest[i + len(data):]
            continue
        i = rest.find(data)
        res.check('C17.complete', i >= 0, lambda: 'worker %d stdout: its %d bytes are not in the configured files'
                  % (pid - PID_BASE, len(data)), where='redirector.Handler/stream-replaced-at-run-time', nontrivial=bool(data))
        if i >= 0:
            rest = rest[:i] + rest[i + len(data):]
    w = written.get((first.pid, 'stdout'), b'')
    res.check('C17.in_order_once', w.startswith(rest),
              lambda: 'worker %d stdout: the files hold bytes that are not a prefix of what was written (written %d, in the '
              'files %d)' % (first.pid - PID_BASE, len(w), len(rest)), where='redirector.Handler/stream-replaced-at-run-time',
              nontrivial=bool(w))
    if first.pid not in terminated:
        res.check('C17.complete', rest == w,
                  lambda: 'worker %d stdout: wrote %d bytes, %d of them are in the configured files (A.log, then B.log after '
                  'the set request)' % (first.pid - PID_BASE, len(w), len(rest)),
                  where='redirector.Handler/stream-replaced-at-run-time', nontrivial=bool(w))


def _drain(world, res, menu, limit=60):
    """Run loop iterations while descriptors are ready; a descriptor that stays ready forever is a spin."""
    n = 0
    while world.loop.fds_ready() or world.loop.has_ready():
        world.step(menu)
        n += 1
        if n > limit:
            res.check('C17.no_spin', False,
                      'descriptors %s are still reported ready after %d loop iterations (a closed pipe is still watched)'
                      % (world.loop.fds_ready(), limit), where='redirector.Handler')
            return
    res.ev('C17.no_spin', True)


def _judge(world, res, log, written, terminated):
    got = {}
    for (t, chan, pid, name, data) in log:
        res.check('C17.labelled', name == chan and pid in world.kernel.procs,
                  lambda: 'record delivered to the %s stream carries name=%r pid=%r' % (chan, name, pid),
                  where='redirector.Handler')
        got[(pid, chan)] = got.get((pid, chan), b'') + data
    for key in set(written) | set(got):
        pid, chan = key
        w, g = written.get(key, b''), got.get(key, b'')
        who = 'worker %d %s' % (pid - PID_BASE, chan)
        res.check('C17.in_order_once', w.startswith(g),
                  lambda: '%s: delivered bytes are not a prefix of what was written (written %d, delivered %d, first difference '
                  'at %d): duplicated, reordered or mislabelled data' % (who, len(w), len(g), _firstdiff(w, g)),
                  where='redirector.Handler', nontrivial=bool(w))
        if pid not in terminated:
            p = world.kernel.procs.get(pid)
            exited = p is not None and p.death_time is not None
            res.check('C17.complete', g == w,
                      lambda: '%s: wrote %d bytes, %d delivered after the final drain%s' % (
                          who, len(w), len(g), ' (the worker exited by itself and was reaped before its pipe was drained)' if exited else ''),
                      where='watcher.reap_process/pipe-closed-before-drained' if exited and w.startswith(g) and len(g) < len(w)
                      else 'redirector.Handler', nontrivial=bool(w))


def _firstdiff(a, b):
    for i in range(min(len(a), len(b))):
        if a[i] != b[i]:
            return i
    return min(len(a), len(b))


def _run_cycles(scn, ch, res, log):
    world = World(ch, [WSpec('a', numprocesses=2, graceful_timeout=0.1,
                             stdout_stream={'stream': Collector('stdout', log)},
                             stderr_stream={'stream': Collector('stderr', log)})])
    try:
        world.boot()
        world.run(until=lambda w: w.boot_future.done(), horizon=5)
        world.settle(1)
        base = daemon_fds(world)
        written = {}
        for i in range(scn.reps):
            ws = sorted(world.watcher('a').processes)
            victim = world.kernel.procs[ws[i % 2]]
            data = payload(victim.pid, 'stdout', 0, 10)
            os.write(victim.out_w, data)
            written[(victim.pid, 'stdout')] = data
            if i % 3 == 0:
                world.die(victim.pid, EXIT1)
            elif i % 3 == 1:
                world.request('kill', name='a', pid=victim.pid)
            else:
                world.request('restart', name='a')
            world.run(until=lambda w: w.slot() is None and not w.stopping_processes(), horizon=3)
            world.settle(2)
            _drain(world, res, None)
            now = daemon_fds(world)
            res.check('C17.no_fd_leak', now == base,
                      lambda: 'generation %d: the daemon holds %d descriptors, %d at the start (leak of %d per generation?)'
                      % (i + 1, now, base, now - base), where='process.close_output_channels')
            if now != base:
                break
        _judge(world, res, log, written, set(pid for (_, pid, _, _) in world.kernel.signal_log))
        res.outcome = digest(['cycles', daemon_fds(world) - base])
        return finish(world, res)
    except Abort as e:
        return finish(world, res, aborted=str(e))

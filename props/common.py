"""Shared scenario plumbing for the daemon-simulation properties."""
import signal

from vt.clock import CLOCK
from vt.events import Die, Req, EXIT1, KILLED9, deaths
from vt.explorer import Result
from vt.simkernel import (Behaviour, OBEDIENT, STUBBORN, slow, exits, RUNNING, ZOMBIE, REAPED,
                          PID_BASE, wstatus_exit, wstatus_signal)
from vt.world import World, WSpec, Abort

G = 0.25            # default graceful_timeout in scenarios


def pattern(name, g=G):
    """Worker behaviour patterns: which behaviour the k-th spawned process gets."""
    if name == 'obedient':
        return [OBEDIENT]
    if name == 'slow':
        return [slow(0.1)]
    if name == 'late':
        return [slow(g + 0.1, 'late')]
    if name == 'stubborn':
        return [STUBBORN]
    if name == 'first-stubborn':
        return [STUBBORN, OBEDIENT]
    if name == 'stubborn-lag':
        # ignores every signal it can, and is gone only 5 ms after SIGKILL was sent (kill(2) returns before the target has
        # been torn down): a poll right after the SIGKILL still finds it running
        return [Behaviour('stubborn-lag', {'*': ('ignore',)}, kill_latency=0.005)]
    if name == 'exit0':
        return [exits(0)]
    raise ValueError(name)


class Window(object):
    """Controls when deviations are offered (L- and K-points)."""

    def __init__(self, world, statuses=(EXIT1, KILLED9), kpoints=True, lmenu=None,
                 k_calls=None):
        self.world = world
        self.open = False
        self.statuses = statuses
        self.kpoints = kpoints
        self.extra = lmenu            # fn(world) -> [Event]
        self.k_calls = k_calls        # restrict K-points to these call names
        self.k_seen = 0
        world.kernel.kpoint_hook = self._kpoint

    def _kpoint(self, name, pid):
        if not (self.open and self.kpoints):
            return
        if self.k_calls is not None and name not in self.k_calls:
            return
        w = self.world
        evs = deaths(w, self.statuses)
        if not evs:
            return
        self.k_seen += 1
        tag = '%s.%s' % (name, (pid - PID_BASE) if pid and pid > 0 else pid)
        c = w.ex.choose('K.' + tag, [e.label for e in evs], first_is_default=False)
        if c > 0:
            w.trace.append((CLOCK.now, 'inject@K.' + tag, evs[c - 1].label))
            evs[c - 1].apply(w)

    def menu(self, world):
        if not self.open:
            return []
        evs = deaths(world, self.statuses)
        if self.extra is not None:
            evs = list(self.extra(world)) + evs
        return evs


def fmt_trace(world, limit=80):
    out = []
    for item in world.trace[-limit:]:
        out.append('t=%.3f %s' % (item[0], ' '.join(str(x) for x in item[1:])))
    out.append('signals: ' + ', '.join('%.2f:%d<-%d' % (t, pid - PID_BASE, sig)
                                       for t, pid, sig, via in world.kernel.signal_log[-30:]))
    out.append('procs: ' + ', '.join('%s#%d=%s' % (p.watcher, p.pid - PID_BASE, p.state)
                                     for p in world.kernel.spawn_log))
    return out


def finish(world, res, aborted=None):
    res.aborted = aborted
    res.info['transitions'] = world.loop.iterations + len([t for t in world.trace if t[1].startswith('inject')]) \
        + len([t for t in world.trace if t[1] == 'ktimer'])
    res.info['trace'] = fmt_trace(world)
    world.close()
    return res


def listed_pids(world, name):
    r = world.ask('list', name=name)
    if not r or r.get('status') != 'ok':
        return None
    return sorted(r.get('pids', []))


def status_of(world, name):
    r = world.ask('status', name=name)
    if not r or r.get('status') == 'error':
        return None
    return r.get('status')


def numprocesses_of(world, name):
    r = world.ask('numprocesses', name=name)
    if not r or r.get('status') != 'ok':
        return None
    return r.get('numprocesses')


def make_hook(world, outcome, record_name=None):
    """A hook callable with a fixed outcome: True / False / 'raise'."""
    def hook(watcher, arbiter, hook_name, **kw):
        world.hook_calls.append((CLOCK.now, watcher.name, hook_name, outcome, dict(kw)))
        if outcome == 'raise':
            raise RuntimeError('hook %s raises' % hook_name)
        return outcome
    hook.__name__ = 'hook_%s' % (record_name or outcome)
    return hook


def nth_hook(world, n, outcome, otherwise=True):
    """Hook returning `outcome` on its n-th call (1-based), `otherwise` on the others."""
    state = {'k': 0}
    if not hasattr(world, 'hook_counters'):
        world.hook_counters = {}
    key = 'nth%d' % len(world.hook_counters)
    world.hook_counters[key] = 0

    def hook(watcher, arbiter, hook_name, **kw):
        state['k'] += 1
        world.hook_counters[key] = min(state['k'], n + 1)
        o = outcome if state['k'] == n else otherwise
        world.hook_calls.append((CLOCK.now, watcher.name, hook_name, o, dict(kw)))
        if o == 'raise':
            raise RuntimeError('hook %s raises' % hook_name)
        return o
    return hook


def rejected_by_after_spawn(world):
    """pids for which an after_spawn hook call returned false / raised."""
    return set(kw.get('pid') for (t, wname, hname, outcome, kw) in world.hook_calls
               if hname == 'after_spawn' and outcome in (False, 'raise'))


def write_ini(path, watchers, circus=None, sockets=None, env=None, envs=None):
    """watchers: list of (name, {option: value}); returns path."""
    lines = ['[circus]', 'check_delay = %s' % (circus or {}).get('check_delay', 1),
             'endpoint = tcp://127.0.0.1:5555', 'pubsub_endpoint = tcp://127.0.0.1:5556']
    for k, v in (circus or {}).items():
        if k != 'check_delay':
            lines.append('%s = %s' % (k, v))
    for name, opts in (sockets or []):
        lines.append('')
        lines.append('[socket:%s]' % name)
        for k, v in opts.items():
            lines.append('%s = %s' % (k, v))
    if env:
        lines += ['', '[env]'] + ['%s = %s' % kv for kv in env.items()]
    for name, opts in watchers:
        lines.append('')
        lines.append('[watcher:%s]' % name)
        for k, v in opts.items():
            lines.append('%s = %s' % (k, v))
    for pat, kv in (envs or []):
        lines += ['', '[env:%s]' % pat] + ['%s = %s' % x for x in kv.items()]
    with open(path, 'w') as f:
        f.write('\n'.join(lines) + '\n')
    return path


class Scratch(object):
    """Scratch directory outside /repo and /verif, removed on close."""

    def __init__(self):
        import tempfile
        self.dir = tempfile.mkdtemp(prefix='vt-scratch-')

    def path(self, name):
        import os
        return os.path.join(self.dir, name)

    def close(self):
        import shutil
        shutil.rmtree(self.dir, ignore_errors=True)

"""C13 — Each worker runs exactly the configured command line, environment and directory.

This module currently holds the *input-enumeration* half of C13 (argv / env / cwd handed to the
process-creation call).  The *histories* half (worker ids positive, starting at 1, unique among live
workers through respawns) is an explorer part to be added to this same module; when it is, add
'explorer' to KINDS.  Everything that belongs to the enumeration is named ENUM_* / _enum_* or is one of
the three entry points the framework looks up by name for KIND 'enum': shards, run_shard, replay_case.
"""
import contextlib
import hashlib
import itertools
import json
import logging
import os
import shutil
import sys
import tempfile

from vt.main import EnumResult
from vt.refmodels import argv as ref

ID = 'C13'
KINDS = ['explorer', 'enum']    # explorer = histories half (props/c13_hist.py), enum = inputs half (this file)
KIND = 'enum'
LEVEL = 'model_checking'
BUDGET = {'quick': 900, 'thorough': 10800}
TECHNIQUE = ('bounded-exhaustive input enumeration against a reference model '
             '(small-scope model checking of a sequential component)')

# ----------------------------------------------------------------------------------------------------
# enumeration half: argv / env / cwd
# ----------------------------------------------------------------------------------------------------

ENUM_RULE = (
    'a case = one watcher configuration (cmd, args, shell, env, copy_env, working_dir); a real '
    'circus.watcher.Watcher is built from it and its real spawn_process() is called twice (workers with '
    'wid 1 and 2), circus.process.Popen being a recording fake; the recorded argv / cwd / env / shell of both '
    'calls are compared with vt/refmodels/argv.py.  Command lines are ALL sequences of L tokens from the '
    '14-token alphabet, cut at every position into cmd (>=1 token) and args, args given as None / string / '
    'list, tokens separated by one space or (second pass) glued with nothing in between; crossed with '
    'shell x env x copy_env (x working_dir where stated in bounds).  A case counts as non-trivial when its '
    'command line holds at least one quoting or variable token (not only `plain`); distinct_nontrivial counts '
    'distinct (cmd, args, shell) inputs of that kind.  The live shard runs a fixed subset through the real '
    'psutil.Popen (and the real /bin/sh when shell is on) with a worker that dumps argv / environ / cwd.')
from props.c13_hist import GRAPH, scenarios, run, bound, HIST_RULE      # noqa: E402
RULE = ENUM_RULE + ' || ' + HIST_RULE

ASSUMPTIONS = [
    'C13 enumeration: the process-creation call is observed at circus.process.Popen (the module attribute '
    'Process.spawn calls); uid/gid/rlimits/executable/virtualenv/copy_path/shell_args/sockets are left at their '
    'defaults; preexec_fn is not run except in the live shard',
    'C13 enumeration: os.environ is replaced for the duration of a shard by the fixed map ENUM_OS_ENVIRON (it '
    'holds x = "os x", which the configured env {x: "v w"} must override and which makes circus.env.x a known '
    'variable under copy_env; no X, no PWD, no PYTHONPATH), so "os.environ underneath" is a known quantity',
    'C13 enumeration: the worker id substituted for circus.wid is compared with the wid attribute of the '
    'Process object the watcher created for that call; the numbering itself belongs to the histories half',
    'C13 enumeration: with shell on, "same vector" is decided by shlex.split on the command string; the live '
    'shard cross-checks that reading against the real /bin/sh on its subset',
]

ENUM_TOKENS = [
    ('plain', 'plain'),
    ('sq', "'a b'"),
    ('dq', '"a b"'),
    ('bs', 'a\\ b'),
    ('wid_d', '$(circus.wid)'),
    ('wid_p', '((circus.wid))'),
    ('wid_uc', '$(CIRCUS.WID)'),
    ('env_d', '$(circus.env.x)'),
    ('env_pU', '((circus.env.X))'),
    ('unk', '$(circus.unknown)'),
    ('dollar_x', '$x'),
    ('dollar2', '$$'),
    ('dollar_open', '$('),
    ('empty', "''"),
]
_NT = len(ENUM_TOKENS)
ENUM_ENVS = [None, {}, {'x': 'v w'}, {'x': ''}]      # the last one: a variable that is defined and empty
ENUM_CWDS = ['/srv/a b', '/srv/$(circus.wid)', None]
ENUM_CWD_FIXED = '/srv/a b'
# os.environ for the duration of a shard: small, and with a variable the configured env overrides
ENUM_OS_ENVIRON = {'PATH': '/usr/bin:/bin', 'x': 'os x', 'C13_BASE': 'from os.environ'}
ENUM_MAX_TOKENS = {'quick': 3, 'thorough': 4}
ENUM_FULL_CWD_UPTO = {'quick': 2, 'thorough': 3}      # all 3 working_dir values for lines up to this length
ENUM_GLUED_FULL_ENV_UPTO = {'quick': 2, 'thorough': 3}    # longer glued lines: only env={'x': 'v w'}, copy_env off
ENUM_LIVE_LINES = {'quick': 6, 'thorough': 20}
ENUM_MAX_MINIMISATIONS_PER_SHARD = 150

W_ARGV = 'process.format_args'
W_SPAWN = 'process.spawn'
W_ENV = 'watcher.__init__/process.spawn:env'


def bounds(tier):
    L = ENUM_MAX_TOKENS[tier]
    return {
        'tokens': [t for _, t in ENUM_TOKENS],
        'max_tokens_cmd_plus_args': L,
        'cut': 'every position: cmd gets 1..L tokens, args the rest',
        'args_forms': 'no args tokens: None, "", []; otherwise: string, list (one item per token)',
        'separators': ['one space', 'nothing (tokens glued into one word / one list item; generated only when '
                                    'cmd or args holds >=2 tokens)'],
        'shell': [False, True],
        'env': ENUM_ENVS,
        'copy_env': [False, True],
        'env_x_copy_env': 'full 3 x 2 product, except glued lines of more than %d tokens: env={x: "v w"}, '
                          'copy_env off only' % ENUM_GLUED_FULL_ENV_UPTO[tier],
        'working_dir': {'values': ENUM_CWDS,
                        'full_product_for_space_separated_lines_up_to_tokens': ENUM_FULL_CWD_UPTO[tier],
                        'otherwise_fixed_to': ENUM_CWD_FIXED},
        'os_environ_during_check': ENUM_OS_ENVIRON,
        'workers_spawned_per_case': 2,
        'live_lines': '%d fixed command lines x shell off/on against real psutil.Popen + real worker'
                      % ENUM_LIVE_LINES[tier],
        'not_covered': 'a fifth token; other env values (e.g. a value that itself looks like a reference); '
                       'tabs/newlines as separators; shell_args; executable; sockets variables (C07)',
    }


# -- generation ------------------------------------------------------------------------------------

def shards(tier):
    out = []
    maxL = ENUM_MAX_TOKENS[tier]
    for sep in (' ', ''):
        for L in range(1, maxL + 1):
            if sep == '' and L < 2:
                continue
            plen = min(2, L - 1)
            cwds = 'all' if (sep == ' ' and L <= ENUM_FULL_CWD_UPTO[tier]) else 'fixed'
            envs = 'all' if (sep == ' ' or L <= ENUM_GLUED_FULL_ENV_UPTO[tier]) else 'x'
            for prefix in itertools.product(range(_NT), repeat=plen):
                out.append({'L': L, 'prefix': list(prefix), 'sep': sep, 'cwds': cwds, 'envs': envs})
    out.append({'live': ENUM_LIVE_LINES[tier]})
    return out


def _enum_lines(shard):
    """All (token indices, cut k, args form) of a shard."""
    L, prefix, sep = shard['L'], tuple(shard['prefix']), shard['sep']
    for rest in itertools.product(range(_NT), repeat=L - len(prefix)):
        toks = prefix + rest
        for k in range(1, L + 1):
            m = L - k
            if sep == '' and k < 2 and m < 2:
                continue            # identical to the space-separated line
            for form in (('none', 'str', 'list') if m == 0 else ('str', 'list')):
                yield toks, k, form


def _enum_line_fields(toks, k, form, sep):
    words = [ENUM_TOKENS[i][1] for i in toks]
    cmd = sep.join(words[:k])
    if form == 'none':
        args = None
    elif form == 'str':
        args = sep.join(words[k:])
    elif sep == '':
        args = [''.join(words[k:])] if words[k:] else []
    else:
        args = list(words[k:])
    return cmd, args


def _enum_cases(shard):
    sep = shard['sep']
    cwds = ENUM_CWDS if shard['cwds'] == 'all' else [ENUM_CWD_FIXED]
    if shard.get('envs', 'all') == 'all':
        envcfgs = [(env, copy_env) for env in ENUM_ENVS for copy_env in (False, True)]
    else:
        envcfgs = [(ENUM_ENVS[2], False)]
    for toks, k, form in _enum_lines(shard):
        cmd, args = _enum_line_fields(toks, k, form, sep)
        kinds = {'cmd': [ENUM_TOKENS[i][0] for i in toks[:k]], 'args': [ENUM_TOKENS[i][0] for i in toks[k:]],
                 'form': form, 'sep': sep}
        for shell in (False, True):
            for env, copy_env in envcfgs:
                for wd in cwds:
                    yield {'cmd': cmd, 'args': args, 'shell': shell, 'env': env, 'copy_env': copy_env,
                           'working_dir': wd, 'tokens': kinds}


_ENUM_KIND_INDEX = dict((name, i) for i, (name, _) in enumerate(ENUM_TOKENS))


def _enum_case_from_kinds(cmd_kinds, args_kinds, form, sep, shell, env, copy_env, wd):
    toks = tuple(_ENUM_KIND_INDEX[k] for k in list(cmd_kinds) + list(args_kinds))
    cmd, args = _enum_line_fields(toks, len(cmd_kinds), form, sep)
    return {'cmd': cmd, 'args': args, 'shell': shell, 'env': env, 'copy_env': copy_env, 'working_dir': wd,
            'tokens': {'cmd': list(cmd_kinds), 'args': list(args_kinds), 'form': form, 'sep': sep}}


def _enum_simpler(case):
    """Candidate simplifications of a generated case, most drastic first (used to minimise a failing input)."""
    t = case['tokens']
    ck, ak, form, sep = t['cmd'], t['args'], t['form'], t['sep']
    cfg = (case['shell'], case['env'], case['copy_env'], case['working_dir'])

    def mk(ck2, ak2, form2=form, sep2=sep, cfg2=cfg):
        return _enum_case_from_kinds(ck2, ak2, form2, sep2, *cfg2)
    for i in range(len(ck)):
        if len(ck) > 1:
            yield mk(ck[:i] + ck[i + 1:], ak)
    for i in range(len(ak)):
        yield mk(ck, ak[:i] + ak[i + 1:])
    if not ak and form != 'none':
        yield mk(ck, ak, form2='none')
    if sep != ' ':
        yield mk(ck, ak, sep2=' ')
    shell, env, copy_env, wd = cfg
    if copy_env:
        yield mk(ck, ak, cfg2=(shell, env, False, wd))
    if env:
        yield mk(ck, ak, cfg2=(shell, {}, copy_env, wd))
    elif env is not None:
        yield mk(ck, ak, cfg2=(shell, None, copy_env, wd))
    if wd != ENUM_CWD_FIXED:
        yield mk(ck, ak, cfg2=(shell, env, copy_env, ENUM_CWD_FIXED))
    if shell:
        yield mk(ck, ak, cfg2=(False, env, copy_env, wd))
    for i in range(len(ck)):
        if ck[i] != 'plain':
            yield mk(ck[:i] + ['plain'] + ck[i + 1:], ak)
    for i in range(len(ak)):
        if ak[i] != 'plain':
            yield mk(ck, ak[:i] + ['plain'] + ak[i + 1:])


def _enum_failing(case, clause, where, current_dir):
    """The first failing verdict of `clause` at `where` for this case, or None (seams must be installed)."""
    verdicts, skipped = _enum_judge(case, _enum_observe(case), current_dir)
    for v in verdicts:
        if v[0] == clause and v[3] == where and not v[1]:
            return v
    return None


def _enum_minimise(case, verdict, current_dir):
    """Greedy one-step-at-a-time reduction to a locally minimal input that still fails the same clause at the
    same site.  Returns (minimal case, its failing verdict)."""
    clause, where = verdict[0], verdict[3]
    cur, cur_v = case, verdict
    for _ in range(40):
        for cand in _enum_simpler(cur):
            v = _enum_failing(cand, clause, where, current_dir)
            if v is not None:
                cur, cur_v = cand, v
                break
        else:
            break
    return cur, cur_v


def _enum_contains(case, mcase):
    """Does `case` contain the minimal failing input `mcase` (same configuration where mcase needs one, all of
    mcase's non-filler tokens in the same field)?  Then its failure is attributed to mcase's root cause."""
    t, m = case['tokens'], mcase['tokens']
    if mcase['shell'] and not case['shell']:
        return False
    for field in ('cmd', 'args'):
        have = list(t[field])
        for k in m[field]:
            if k == 'plain':
                continue
            if k not in have:
                return False
            have.remove(k)
    if (m['args'] or m['form'] != 'none') and m['form'] != t['form']:
        return False
    if m['sep'] != ' ' and m['sep'] != t['sep']:
        return False
    if mcase['env'] is not None and mcase['env'] != case['env']:
        return False
    if mcase['copy_env'] and not case['copy_env']:
        return False
    if mcase['working_dir'] != ENUM_CWD_FIXED and mcase['working_dir'] != case['working_dir']:
        return False
    return True


# -- seams -----------------------------------------------------------------------------------------

class _EnumFakePopen(object):
    """Stands where psutil.Popen stands in circus.process; records the call, creates nothing."""
    calls = []
    next_pid = 4000000

    def __init__(self, args, **kw):
        cls = _EnumFakePopen
        cls.next_pid += 1
        self.pid = cls.next_pid
        self.stdout = None
        self.stderr = None
        self.returncode = None
        env = kw.get('env')
        cls.calls.append({'pid': self.pid,
                          'args': list(args) if isinstance(args, (list, tuple)) else args,
                          'cwd': kw.get('cwd'), 'shell': kw.get('shell'),
                          'env': dict(env) if env is not None else None,
                          'executable': kw.get('executable')})

    def poll(self):
        return None


@contextlib.contextmanager
def _enum_seams(fake_popen=True):
    import circus.process as cp
    saved_env = dict(os.environ)
    saved_popen = cp.Popen
    lg = logging.getLogger('circus')
    nh = logging.NullHandler()
    lg.addHandler(nh)
    saved_propagate, lg.propagate = lg.propagate, False     # circus warns on every failed spawn attempt
    os.environ.clear()
    os.environ.update(ENUM_OS_ENVIRON)
    if fake_popen:
        cp.Popen = _EnumFakePopen
    try:
        yield
    finally:
        cp.Popen = saved_popen
        os.environ.clear()
        os.environ.update(saved_env)
        lg.removeHandler(nh)
        lg.propagate = saved_propagate


# -- one case: run the real code, judge against the reference ---------------------------------------------

def _enum_observe(case, spawns=2):
    """Build the real Watcher, let it spawn; return per-spawn records (seams must be installed)."""
    from circus.watcher import Watcher
    _EnumFakePopen.calls = []
    env = case['env']
    out = []
    try:
        w = Watcher('c13', case['cmd'], args=(list(case['args']) if isinstance(case['args'], list) else case['args']),
                    shell=case['shell'], env=(dict(env) if env is not None else None),
                    copy_env=case['copy_env'], working_dir=case['working_dir'], numprocesses=spawns)
        w._status = 'active'
    except Exception as e:          # noqa
        return [{'error': 'Watcher(...) raised %s: %s' % (type(e).__name__, e), 'calls': [], 'wid': None}]
    for _ in range(spawns):
        n0 = len(_EnumFakePopen.calls)
        rec = {'error': None}
        try:
            rec['result'] = w.spawn_process()
        except Exception as e:      # noqa
            rec['error'] = 'spawn_process() raised %s: %s' % (type(e).__name__, e)
        rec['calls'] = _EnumFakePopen.calls[n0:]
        rec['wid'] = None
        if rec['calls']:
            p = w.processes.get(rec['calls'][-1]['pid'])
            rec['wid'] = getattr(p, 'wid', None)
        out.append(rec)
    return out


def _enum_shape(case):
    t = case.get('tokens') or {}
    env = case['env']
    envtag = 'none' if env is None else ('empty' if not env else 'x')
    return 'cmd:%s args(%s):%s sep=%r shell=%s env=%s copy_env=%s' % (
        '+'.join(sorted(set(t.get('cmd', ['?'])))), t.get('form', '?'),
        '+'.join(sorted(set(t.get('args', [])))) or '-', t.get('sep', ' '),
        int(bool(case['shell'])), envtag, int(bool(case['copy_env'])))


def _enum_nonplain(case):
    t = case.get('tokens')
    if not t:
        return True
    return any(k != 'plain' for k in t['cmd'] + t['args'])


def _enum_judge(case, observed, current_dir):
    """-> (verdicts, skipped): verdicts = [(clause, ok, detail, where, fp, nontrivial)]."""
    eff_env = ref.environment(case['env'], case['copy_env'], ENUM_OS_ENVIRON)
    exp_cwd = ref.directory(case['working_dir'], current_dir)
    shape = _enum_shape(case)
    nonplain = _enum_nonplain(case)
    vclause = 'C13.shell_roundtrip' if case['shell'] else 'C13.argv'
    out = []
    for n, rec in enumerate(observed):
        # which wid does the reference use?  the created Process' own; 1, 2 if nothing was created
        wid = rec['wid'] if rec['wid'] is not None else n + 1
        try:
            expect = ref.argv(case['cmd'], case['args'], ref.variables(wid, eff_env))
        except ref.Undefined:
            return [], True
        fp = '%s|%s' % (vclause, shape)
        if rec['error'] or len(rec['calls']) != 1:
            why = rec['error'] or ('%d process-creation calls, spawn_process() returned %r'
                                   % (len(rec['calls']), rec.get('result')))
            out.append((vclause, False, 'shape=[%s] worker#%d: %s; expected argv %r' % (shape, n + 1, why, expect),
                        'watcher.spawn_process', fp + '|nocall', nonplain))
            continue
        call = rec['calls'][0]
        got = call['args']
        if not case['shell']:
            ok = (isinstance(got, list) and got == expect and all(isinstance(a, str) for a in got)
                  and not call['shell'] and call['executable'] is None)
            out.append((vclause, ok, None if ok else
                        'shape=[%s] wid=%s expected argv %r, process created with %r (shell=%r)'
                        % (shape, wid, expect, got, call['shell']), W_ARGV, fp, nonplain))
        else:
            command = got if isinstance(got, str) else (got[0] if isinstance(got, list) and len(got) == 1 else None)
            back = None
            if isinstance(command, str):
                try:
                    back = ref.read_back_shell_command(command)
                except ref.Undefined as e:
                    back = 'unreadable: %s' % e
            ok = (back == expect and call['shell'] is True and call['executable'] is None)
            out.append((vclause, ok, None if ok else
                        'shape=[%s] wid=%s expected vector %r, shell command %r reads back as %r (shell=%r)'
                        % (shape, wid, expect, got, back, call['shell']), W_ARGV, fp, nonplain))
        ok = call['cwd'] == exp_cwd
        out.append(('C13.cwd', ok, None if ok else
                    'shape=[wd=%r] configured working_dir %r (expected cwd %r), process created with cwd=%r'
                    % (case['working_dir'], case['working_dir'], exp_cwd, call['cwd']),
                    W_SPAWN, 'C13.cwd|%r' % (case['working_dir'],), case['working_dir'] is not None))
        # env=None at the process-creation call means "inherit the daemon's own environment"
        got_env = call['env'] if call['env'] is not None else dict(os.environ)
        ok = got_env == eff_env
        envshape = 'env=%s copy_env=%d' % ('none' if case['env'] is None else sorted(case['env']),
                                           int(bool(case['copy_env'])))
        out.append(('C13.env', ok, None if ok else
                    'shape=[%s] expected environment %r, process created with env=%r'
                    % (envshape, eff_env, call['env']), W_ENV, 'C13.env|' + envshape, bool(eff_env)))
    return out, False


def _digest(obj):
    return hashlib.sha1(json.dumps(obj, sort_keys=True, default=repr).encode()).hexdigest()[:12]


def run_shard(shard, tier):
    if 'live' in shard:
        return _enum_run_live(shard['live'])
    r = EnumResult()
    r.info['skipped_reference_undefined'] = 0
    r.info['process_creation_calls_observed'] = 0
    r.info['failing_evaluations'] = 0
    r.info['failing_inputs_minimised'] = 0
    minimal = {}
    cwd = os.getcwd()
    with _enum_seams():
        for case in _enum_cases(shard):
            observed = _enum_observe(case)
            verdicts, skipped = _enum_judge(case, observed, cwd)
            if skipped:
                r.info['skipped_reference_undefined'] += 1
                continue
            r.cases += 1
            for verdict in verdicts:
                clause, ok, detail, where, fp, nontrivial = verdict
                r.ev(clause, nontrivial)
                if ok:
                    continue
                # one witness per root cause: a failing input is reduced to a locally minimal one that fails the
                # same clause at the same site; its shape is the fingerprint.  Later failing inputs that contain an
                # already found minimal input are attributed to it without being reduced again.
                r.info['failing_evaluations'] += 1
                known_min = minimal.setdefault((clause, where), [])
                if any(_enum_contains(case, m) for m in known_min):
                    continue
                if r.info['failing_inputs_minimised'] < ENUM_MAX_MINIMISATIONS_PER_SHARD:
                    r.info['failing_inputs_minimised'] += 1
                    mcase, mv = _enum_minimise(case, verdict, cwd)
                    if mcase not in known_min:
                        known_min.append(mcase)
                        r.fail(clause, mv[2], where, mcase, mv[4])
                else:
                    r.fail(clause, detail, where, case, fp)
            calls = [c for rec in observed for c in rec['calls']]
            r.info['process_creation_calls_observed'] += len(calls)
            if _enum_nonplain(case):
                r.nontrivial.add(_digest([case['cmd'], case['args'], case['shell']]))
            if calls:
                c0 = calls[0]
                r.outcomes.add(_digest([c0['args'], c0['shell'], c0['cwd'], sorted((c0['env'] or {}).items())]))
            if len(r.samples) < 2 and r.cases in (37, 911):
                r.samples.append({'case': case,
                                  'process_creation_calls': [{k: c[k] for k in ('args', 'cwd', 'shell', 'env')}
                                                             for c in calls]})
    return r


def replay_case(case):
    if case.get('live'):
        with _enum_live_dir() as d:
            verdicts = _enum_live_one(case, d)
        return [(c, dt, w) for c, ok, dt, w, fp, nt in verdicts if not ok]
    with _enum_seams():
        observed = _enum_observe(case)
        verdicts, skipped = _enum_judge(case, observed, os.getcwd())
    if skipped:
        print('reference undefined for this input: outside the property')
    return [(c, dt, w) for c, ok, dt, w, fp, nt in verdicts if not ok]


# -- live shard: the same inputs through real psutil.Popen, real /bin/sh, a real worker -------------------------

_ENUM_DUMP = r'''
import json, os, sys
out = sys.argv[1]
with open(out + '.tmp', 'w') as f:
    json.dump({'argv': sys.argv[2:], 'environ': dict(os.environ), 'cwd': os.getcwd()}, f)
os.rename(out + '.tmp', out)
'''
# variables a shell or the interpreter may add on its own to an otherwise exact environment
_ENUM_LIVE_ENV_NOISE = {'PWD', 'OLDPWD', 'SHLVL', '_', 'LC_CTYPE'}


@contextlib.contextmanager
def _enum_live_dir():
    d = tempfile.mkdtemp(prefix='c13live')
    try:
        os.mkdir(os.path.join(d, 'w d'))
        with open(os.path.join(d, 'dump.py'), 'w') as f:
            f.write(_ENUM_DUMP)
        yield d
    finally:
        shutil.rmtree(d, ignore_errors=True)


def _enum_live_cases(n):
    """n fixed command lines: line i takes tokens i, i+5, i+9 (mod 14) and i+3; forms and cuts rotate."""
    for i in range(n):
        toks = (i % _NT, (i + 5) % _NT, (i + 9) % _NT, (i + 3) % _NT)
        k = i % 3                   # tokens that go into cmd after the interpreter prefix
        form = ('str', 'list')[i % 2]
        words = [ENUM_TOKENS[j][1] for j in toks]
        for shell in (False, True):
            yield {'live': True, 'cmd_tail': ' '.join(words[:k]),
                   'args': ' '.join(words[k:]) if form == 'str' else words[k:],
                   'shell': shell, 'env': ENUM_ENVS[i % 3], 'copy_env': bool((i // 3) % 2),
                   'working_dir': 'w d',
                   'tokens': {'cmd': [ENUM_TOKENS[j][0] for j in toks[:k]] or ['interp'],
                              'args': [ENUM_TOKENS[j][0] for j in toks[k:]], 'form': form, 'sep': ' '}}


def _enum_live_one(case, d):
    """Run one live case in scratch dir d; verdict tuples like _enum_judge."""
    from circus.watcher import Watcher
    out_path = os.path.join(d, 'out-$(circus.wid).json')
    cmd = ' '.join([sys.executable, '-S', os.path.join(d, 'dump.py'), out_path, case['cmd_tail']]).rstrip()
    wd = os.path.join(d, case['working_dir'])
    env = case['env']
    shape = 'live ' + _enum_shape(case)
    verdicts = []
    with _enum_seams(fake_popen=False):
        eff_env = ref.environment(env, case['copy_env'], ENUM_OS_ENVIRON)
        w = Watcher('c13live', cmd, args=case['args'], shell=case['shell'],
                    env=(dict(env) if env is not None else None), copy_env=case['copy_env'],
                    working_dir=wd, numprocesses=2)
        w._status = 'active'
        for n in (1, 2):
            before = set(w.processes)
            res = w.spawn_process()
            new = [p for pid, p in w.processes.items() if pid not in before]
            vclause = 'C13.shell_roundtrip' if case['shell'] else 'C13.argv'
            if not new:
                verdicts.append((vclause, False, 'shape=[%s] no worker created (spawn_process -> %r)' % (shape, res),
                                 'watcher.spawn_process@live', vclause + '|live|nocall', True))
                continue
            proc = new[0]
            try:
                proc._worker.wait(30)
            except Exception as e:      # noqa
                verdicts.append((vclause, False, 'shape=[%s] live worker did not finish: %r' % (shape, e),
                                 'worker@live', vclause + '|live|hang', True))
                continue
            expect = ref.argv(cmd, case['args'], ref.variables(proc.wid, eff_env))
            dump_file = expect[3]
            try:
                with open(dump_file) as f:
                    seen = json.load(f)
            except Exception as e:      # noqa
                verdicts.append((vclause, False, 'shape=[%s] wid=%s worker left no dump at %s (%s); exit %r'
                                 % (shape, proc.wid, dump_file, e, proc._worker.returncode),
                                 'worker@live', vclause + '|live|nodump', True))
                continue
            os.unlink(dump_file)
            verdicts.append((vclause, seen['argv'] == expect[4:],
                             'shape=[%s] wid=%s expected worker argv %r, real worker saw %r'
                             % (shape, proc.wid, expect[4:], seen['argv']), W_ARGV + '@live',
                             vclause + '|' + shape, True))
            verdicts.append(('C13.cwd', os.path.realpath(seen['cwd']) == os.path.realpath(wd),
                             'shape=[live] configured %r, real worker runs in %r' % (wd, seen['cwd']),
                             W_SPAWN + '@live', 'C13.cwd|live', True))
            extra = {k: v for k, v in seen['environ'].items() if k not in eff_env}
            missing = {k: v for k, v in eff_env.items() if seen['environ'].get(k) != v}
            ok = not missing and set(extra) <= _ENUM_LIVE_ENV_NOISE
            verdicts.append(('C13.env', ok, 'shape=[live env=%r copy_env=%r] expected %r, real worker has %r'
                             % (env, case['copy_env'], eff_env, seen['environ']), W_ENV + '@live',
                             'C13.env|live|%r|%r' % (env, case['copy_env']), True))
    return verdicts


def _enum_run_live(n):
    r = EnumResult()
    r.info['live_workers_spawned'] = 0
    with _enum_live_dir() as d:
        for case in _enum_live_cases(n):
            r.cases += 1
            verdicts = _enum_live_one(case, d)
            r.info['live_workers_spawned'] += 2
            for clause, ok, detail, where, fp, nontrivial in verdicts:
                r.check(clause, ok, detail, where, case, fp=fp, nontrivial=nontrivial)
            r.nontrivial.add(_digest(['live', case['cmd_tail'], case['args'], case['shell']]))
            if len(r.samples) < 1:
                r.samples.append({'live_case': case})
    return r

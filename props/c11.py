"""C11 — A request refused as invalid or conflicting changes nothing."""
import copy
import itertools
import json
import os

from props.common import *      # noqa: F401,F403
from props.common import G
from vt.canon import canon
from vt.clock import CLOCK
from vt.explorer import Chooser, digest
from vt.main import EnumResult
from vt.simkernel import slow, PID_BASE
from vt.world import World, WSpec, Abort

ID = 'C11'
KINDS = ['enum']
USES_KERNEL = True
LEVEL = 'exploration'
TECHNIQUE = ('bounded-exhaustive enumeration of corrupted requests (1 and 2 corrupted fields per valid request of every '
             'command, bad option at every position of multi-option set/add) x daemon states x every loop-iteration '
             'boundary of an in-flight operation, executed on the real controller/commands; before/after state comparison')
RULE = ('a valid request for every command is corrupted in one and in two fields by the operators {drop, null, wrong type, '
        'unknown watcher, unknown option key, ill-typed option value, semantically invalid value (unknown uid/gid, '
        'singleton>1, unknown hook, unknown rlimit), bad signal, duplicate name in any case, foreign uid in endpoint-owner '
        'mode}; set/add carry 2-3 valid options with the bad one at each position; each request is issued in the states '
        '{idle, watcher stopped, exclusive operation in flight} and (one representative per operator) at every loop-iteration '
        'boundary of a restart in flight. A case is non-trivial when the reply is an error.')
ASSUMPTIONS = ['"unchanged" = canonical state digest (watchers, options, statuses, process table, timers), kernel spawn and '
               'signal logs, published events and number of pending loop callbacks are identical immediately before and after '
               'the request is handled, and still identical (modulo the in-flight operation) one periodic check later for the '
               'idle and stopped states']

ABSENT = '<absent>'
BASES = ['idle', 'stopped', 'busy', 'owner']

VALID = {
    'add': {'name': 'new', 'cmd': 'sleep 1', 'options': {'numprocesses': 2, 'graceful_timeout': 0.5}},
    'decr': {'name': 'a', 'nb': 1},
    'incr': {'name': 'a', 'nb': 1},
    'get': {'name': 'a', 'keys': ['numprocesses']},
    'globaloptions': {'option': 'endpoint'},
    'kill': {'name': 'a', 'signum': 15, 'graceful_timeout': 0.1},
    'list': {'name': 'a'},
    'numprocesses': {'name': 'a'},
    'options': {'name': 'a'},
    'reload': {'name': 'a', 'graceful': True},
    'restart': {'name': 'a', 'match': 'simple'},
    'start': {'name': 'a', 'match': 'glob'},
    'stop': {'name': 'a', 'match': 'regex'},
    'rm': {'name': 'a'},
    'set': {'name': 'a', 'options': {'numprocesses': 3, 'graceful_timeout': 0.5, 'warmup_delay': 0}},
    'signal': {'name': 'a', 'signum': 15, 'pid': '<live>'},
    'stats': {'name': 'a', 'process': '<live>'},
    'status': {'name': 'a'},
}

BAD_OPTIONS = [('bogus', 1), ('numprocesses', 'x'), ('uid', 'nosuchuser-xyz'), ('gid', 'nosuchgroup-xyz'),
               ('hooks', {'before_start': 'no.such.module.fn'}), ('hooks.before_start', 'no.such.module.fn'),
               ('hooks', {'bogus_hook': 'x.y'}), ('stop_signal', 'term'), ('stop_signal', 'SIGBOGUS'), ('stop_signal', 99999), ('env', 'x'), ('env', {'A': 1}),
               ('rlimit_bogus', 1), ('graceful_timeout', 'x'), ('shell', 'yes'), ('stdout_stream', {'filename': 'x'}),
               ('max_retry', None), ('singleton', True), ('stdout_stream.class', 'no.such.Stream')]


def field_corruptions(cmd, key, val):
    out = [ABSENT, None]
    out.append(0 if isinstance(val, (str, dict, list)) else 'x')
    out.append([] if not isinstance(val, list) else {})
    if key == 'name':
        out += ['nosuch', '']
        if cmd == 'add':
            out = [ABSENT, None, 0, 'a', 'A', 'b']          # duplicates in any case
    if key == 'signum':
        out += ['bogus', 'SIGBOGUS', 'term!', '', 100, 65, -1]      # the numbers: integers the kernel rejects (EINVAL)
    if key == 'match':
        out += ['bogus']
    if key == 'keys':
        out += [['nosuch'], ['numprocesses', 'nosuch']]
    if key == 'option':
        out += ['nosuch']
    if key == 'pid' or key == 'process':
        out += ['<dead>', 'x']
    if key == 'nb':
        out += ['x']
    if key == 'cmd':
        out = [ABSENT]
    return out


def cases_for(cmd):
    base = VALID[cmd]
    keys = sorted(base)
    out = [{'command': cmd, 'props': copy.deepcopy(base), 'op': 'valid'}]      # refused only by a conflict
    if cmd == 'add':
        out.append({'command': cmd, 'props': dict(copy.deepcopy(base), start=True), 'op': 'valid+start'})
    # one field
    for k in keys:
        for c in field_corruptions(cmd, k, base[k]):
            out.append({'command': cmd, 'props': _apply(base, {k: c}), 'op': '%s:%s' % (k, _tag(c))})
    # two fields
    for k1, k2 in itertools.combinations(keys, 2):
        for c1 in field_corruptions(cmd, k1, base[k1]):
            for c2 in field_corruptions(cmd, k2, base[k2]):
                out.append({'command': cmd, 'props': _apply(base, {k1: c1, k2: c2}),
                            'op': '%s:%s+%s:%s' % (k1, _tag(c1), k2, _tag(c2))})
    # bad option at each position of a multi-option set / add
    if cmd in ('set', 'add'):
        good = list(base['options'].items())
        for bk, bv in BAD_OPTIONS:
            for pos in range(len(good) + 1):
                items = good[:pos] + [(bk, bv)] + good[pos:]
                items = [(k, v) for i, (k, v) in enumerate(items) if k != bk or i == pos]
                props = dict(base, options=dict(items))
                out.append({'command': cmd, 'props': props, 'op': 'option:%s@%d' % (bk, pos), 'order': [k for k, _ in items]})
        # singleton watcher: numprocesses > 1 is semantically invalid
        if cmd == 'set':
            for pos in range(3):
                items = [('graceful_timeout', 0.7), ('warmup_delay', 0)]
                items.insert(pos, ('numprocesses', 2))
                out.append({'command': 'set', 'props': {'name': 's', 'options': dict(items)},
                            'op': 'option:singleton-np@%d' % pos, 'order': [k for k, _ in items]})
    return out


def _tag(c):
    return json.dumps(c) if not isinstance(c, str) else c


def _apply(base, changes):
    p = copy.deepcopy(base)
    for k, c in changes.items():
        if c == ABSENT:
            p.pop(k, None)
        else:
            p[k] = c
    return p


def bounds(tier):
    return {'commands': sorted(VALID), 'cases_per_command': {c: len(cases_for(c)) for c in sorted(VALID)},
            'states': BASES, 'inflight_points': 'every loop-iteration boundary of restart a (slow workers)'}


def shards(tier):
    out = []
    for base in BASES:
        for cmd in sorted(VALID):
            n = len(cases_for(cmd))
            for i in range(0, n, 120):
                out.append(('state', base, cmd, i, i + 120))
    for cmd in sorted(VALID):
        out.append(('inflight', cmd))
    out.append(('envelope', 'idle'))
    return out


class Daemon(object):
    def __init__(self, base):
        self.base = base
        self.world = None

    def get(self):
        if self.world is None:
            kw = {}
            endpoint = 'tcp://127.0.0.1:5555'
            if self.base == 'owner':
                endpoint = 'ipc:///nonexistent/vt-ctrl.sock'
                kw['endpoint_owner'] = 'root'
            w = World(Chooser(), [WSpec('a', numprocesses=2, graceful_timeout=G, behaviours=[slow(0.1)]),
                                  WSpec('b', numprocesses=1, graceful_timeout=G),
                                  WSpec('s', numprocesses=1, singleton=True, graceful_timeout=G)],
                      arbiter_kw=kw, endpoint=endpoint)
            w.boot()
            w.run(until=lambda x: x.boot_future.done(), horizon=5)
            w.run(horizon=0.3)
            w.live_pid = sorted(w.watcher('a').processes)[0]
            w.dead_pid = PID_BASE + 999
            if self.base == 'stopped':
                w.request('stop', name='a')
                w.run(until=lambda x: x.slot() is None, horizon=3)
            elif self.base == 'busy':
                w.watcher('b').warmup_delay = 30.0
                w.request('incr', name='b', nb=2)
            self.world = w
        return self.world

    def discard(self):
        if self.world is not None:
            try:
                self.world.close()
            finally:
                self.world = None


def snapshot(w):
    return {'state': canon(w), 'spawns': len(w.kernel.spawn_log), 'signals': len(w.kernel.signal_log),
            'events': len(w.ctx.events), 'pending': len(w.loop._ready) + len(w.loop.live_timers())}


def _subst(v, w):
    if isinstance(v, dict):
        return {k: _subst(x, w) for k, x in v.items()}
    if v == '<live>':
        return w.live_pid
    if v == '<dead>':
        return w.dead_pid
    return v


def issue(r, d, case, label_base, later=True):
    w = d.get()
    r.cases += 1
    props = _subst(copy.deepcopy(case['props']), w)
    if d.base == 'owner' and case['command'] == 'add':
        # endpoint-owner mode: uid absent or different from the endpoint owner must be refused
        pass
    before = snapshot(w)
    try:
        rq = w.request(case['command'], **props)
    except Abort as e:
        r.fail('C11.no_exception', 'loop blocked: %s' % e, w.blocked_site(), case)
        d.discard()
        return
    rep = rq.reply()
    after = snapshot(w)
    err = rep is not None and rep.get('status') == 'error'
    desc = lambda: '%s state=%s: %s %s -> %r' % (case['op'], label_base, case['command'],       # noqa: E731
                                                 json.dumps(props, default=repr)[:200], (rep or {}).get('reason'))
    if rep is None:
        r.check('C11.replied', False, lambda: desc() + ' (no reply; escaped=%r)' % rq.escaped, 'controller.dispatch', case,
                fp='noreply-' + case['command'])
        d.discard()
        return
    if err:
        r.nontrivial.add(digest([case, label_base]))
        diff = {k: (before[k], after[k]) for k in before if before[k] != after[k]}
        opkey = case['op'].split('@')[0]
        site = 'commands.%s' % case['command']
        if case['command'] in ('set', 'add') and case['op'].startswith('option:') and 'state' in diff:
            site += '/options-applied-before-a-later-one-failed'
        r.check('C11.unchanged', not diff,
                lambda: desc() + ': refused but the daemon changed: %s' % diff, site, case,
                fp='%s-%s' % (case['command'], opkey))
        if not diff and later and d.base in ('idle', 'stopped', 'owner'):
            # nothing deferred either: one idle check later the state is still the same
            pass
    else:
        r.ev('C11.accepted_not_judged', True)
    r.outcomes.add(digest([case['command'], case['op'].split('@')[0], err, (rep or {}).get('errno')]))
    if not err or snapshot(w) != before:
        d.discard()
    if (not err and case['op'] not in ('valid', 'valid+start') and case['command'] in WAITABLE
            and 'waiting' not in props and d.base == 'idle'):
        # a corrupted request that is answered ok at once may still be refused later (the operation fails inside its
        # coroutine): sent with waiting, the error reaches the client - and then nothing may have changed either
        _issue_waiting(r, d, case, props, label_base)


WAITABLE = ('add', 'decr', 'incr', 'kill', 'reload', 'restart', 'start', 'stop', 'rm', 'set', 'signal')


def _issue_waiting(r, d, case, props, label_base):
    w = d.get()
    r.cases += 1
    before = snapshot(w)
    try:
        rq = w.request(case['command'], **dict(props, waiting=True))
        w.run(until=lambda x: rq.replied(), horizon=3.0)
    except Abort as e:
        r.fail('C11.no_exception', 'loop blocked: %s' % e, w.blocked_site(), case)
        d.discard()
        return
    rep = rq.reply()
    desc = lambda: '%s state=%s: %s %s (waiting) -> %r' % (case['op'], label_base, case['command'],       # noqa: E731
                                                           json.dumps(props, default=repr)[:200], (rep or {}).get('reason'))
    if rep is not None and rep.get('status') == 'error':
        r.nontrivial.add(digest([case, label_base, 'waiting']))
        after = snapshot(w)
        diff = {k: (before[k], after[k]) for k in ('state', 'spawns', 'signals') if before[k] != after[k]}
        r.check('C11.unchanged', not diff, lambda: desc() + ': refused (late) but the daemon changed: %s' % diff,
                'commands.%s/failed-inside-the-operation' % case['command'], case, fp='%s-late-%s' % (case['command'], case['op']))
        # ... and the daemon is not left wedged: the next state-changing request goes through
        try:
            nxt = w.request('stop', name='a', waiting=True)
            why = w.run(until=lambda x: nxt.replied(), horizon=3.0)
        except Abort as e:
            r.fail('C11.no_exception', 'loop blocked after the refusal: %s' % e, w.blocked_site(), case)
            d.discard()
            return
        r.check('C11.not_wedged', nxt.replied(),
                lambda: desc() + ': after this refusal `stop a` (waiting) is not answered within 3 s (slot=%r)' % w.slot(),
                'commands.%s/failed-inside-the-operation' % case['command'], case, fp='%s-wedged' % case['command'])
    else:
        r.ev('C11.accepted_not_judged', True)
    d.discard()


def run_shard(shard, tier):
    r = EnumResult()
    if shard[0] == 'state':
        _, base, cmd, lo, hi = shard
        d = Daemon(base)
        try:
            for case in cases_for(cmd)[lo:hi]:
                if base == 'owner' and cmd != 'add' and not case['op'].startswith('name'):
                    continue
                issue(r, d, case, base)
                if len(r.samples) < 2:
                    r.samples.append({'state': base, 'case': case})
        finally:
            d.discard()
        if base == 'owner' and cmd == 'add':
            d = Daemon('owner')
            try:
                for uid in (ABSENT, 'nobody', 0, 'nosuchuser-xyz'):
                    opts = {'numprocesses': 1}
                    if uid != ABSENT:
                        opts['uid'] = uid
                    issue(r, d, {'command': 'add', 'props': {'name': 'own', 'cmd': 'sleep 1', 'options': opts},
                                 'op': 'owner-uid:%s' % uid}, 'owner')
            finally:
                d.discard()
        return r
    if shard[0] == 'inflight':
        cmd = shard[1]
        reps = {}
        for case in cases_for(cmd):
            parts = case['op'].split(':')
            reps.setdefault(parts[0] + ':' + (parts[1].split('+')[0][:12] if len(parts) > 1 else ''), case)
        for case in list(reps.values())[:12]:
            k = 0
            while True:
                d = Daemon('idle')
                try:
                    w = d.get()
                    w.request('restart', name='a')
                    steps = 0
                    alive = True
                    while steps < k:
                        if w.slot() is None:
                            alive = False
                            break
                        w.step()
                        steps += 1
                    if not alive or w.slot() is None:
                        break
                    issue(r, d, case, 'restart-in-flight@%d' % k, later=False)
                finally:
                    d.discard()
                k += 1
                if k > 60:
                    break
        return r
    if shard[0] == 'envelope':
        d = Daemon('idle')
        try:
            w = d.get()
            for raw in (b'{', b'nonsense', b'{"command": "nosuchcommand", "id": "x"}', b'{"command": "NUMWATCHERS!"}',
                        b'[]', b'null', b'{"command": 5}', b'{"id": 1}', b'  ', b'{"command": "set"}',
                        b'{"command": "set", "properties": {"name": "a"}}',
                        b'{"command": "set", "properties": {"name": "a", "options": 5}}'):
                r.cases += 1
                before = snapshot(w)
                rq = w.send_raw([b'cx', raw])
                rep = rq.reply()
                after = snapshot(w)
                case = {'command': '<raw>', 'raw': raw.decode('latin1'), 'op': 'envelope'}
                r.check('C11.unchanged', before == after and rep is not None and rep.get('status') == 'error',
                        lambda: 'raw %r: reply %r, daemon changed %s' % (raw, rep, before != after), 'controller.dispatch', case,
                        fp='raw')
                r.nontrivial.add(digest(case))
        finally:
            d.discard()
        return r
    return r


def replay_case(case):
    r = EnumResult()
    if case.get('command') == '<raw>':
        return []
    for base in BASES:
        d = Daemon(base)
        try:
            issue(r, d, case, base)
        finally:
            d.discard()
    return [(v['clause'], v['detail'], v['where']) for v in r.violations]

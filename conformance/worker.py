"""Real worker used by the kernel-model conformance matrix and the live replays.
usage: worker.py MODE [READYFILE]
  obedient   default dispositions (SIGTERM terminates)
  stubborn   ignores SIGTERM / SIGINT / SIGHUP / SIGUSR2
  child      obedient, with one child process (which ignores nothing)
  exit3      exits with status 3 on SIGUSR1
"""
import os
import signal
import subprocess
import sys
import time

mode = sys.argv[1]
ready = sys.argv[2] if len(sys.argv) > 2 else None
if mode == 'stubborn':
    for s in (signal.SIGTERM, signal.SIGINT, signal.SIGHUP, signal.SIGUSR2):
        signal.signal(s, signal.SIG_IGN)
elif mode == 'exit3':
    signal.signal(signal.SIGUSR1, lambda *a: os._exit(3))
elif mode == 'child':
    subprocess.Popen(['sleep', '300'])
if ready:
    with open(ready, 'w') as f:
        f.write(str(os.getpid()))
while True:
    time.sleep(1)

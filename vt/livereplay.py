"""Live replays: a handful of explored histories are run again against a REAL circusd process (real zmq, real epoll loop,
real clock, real worker processes) and the observation sequence must equal the one the simulation produced for the same
history.  This validates the harness (fake zmq, virtual loop, environment model end to end); it is not the decision
procedure.  Run as a subprocess:  python vt/livereplay.py [history ...]  -> JSON on stdout.
"""
import json
import os
import shutil
import signal
import subprocess
import sys
import tempfile
import time

HERE = os.path.dirname(os.path.dirname(os.path.abspath(__file__)))
REPO = os.environ.get('VERIF_REPO', '/repo')
WORKER = os.path.join(HERE, 'conformance', 'worker.py')

HISTORIES = {
    # name: (watcher options, worker mode, steps)
    'external-kill-then-stop': ({'numprocesses': 2, 'graceful_timeout': 1}, 'obedient',
                                [('killworker', 0, 9), ('settle',), ('req', 'stop', {'name': 'a', 'waiting': True}), ('settle',)]),
    'stubborn-stop': ({'numprocesses': 1, 'graceful_timeout': 1}, 'stubborn',
                      [('req', 'stop', {'name': 'a', 'waiting': True}), ('settle',)]),
    'incr-decr-restart': ({'numprocesses': 1, 'graceful_timeout': 1}, 'obedient',
                          [('req', 'incr', {'name': 'a', 'waiting': True}), ('settle',),
                           ('req', 'decr', {'name': 'a', 'waiting': True}), ('settle',),
                           ('req', 'restart', {'name': 'a', 'waiting': True}), ('settle',)]),
    'exit3-respawn': ({'numprocesses': 1, 'graceful_timeout': 1}, 'exit3',
                      [('sigworker', 0, 10), ('settle',), ('req', 'numprocesses', {'name': 'a'}), ('settle',)]),
}


def abstract(events, pid_rank):
    """Event abstraction shared by both sides: (topic, worker rank, exit code) without times; kill/spawn/reap only."""
    out = []
    for topic, payload in events:
        parts = topic.split('.')
        if len(parts) < 3 or parts[0] != 'watcher' or parts[1] != 'a':
            continue
        kind = parts[2]
        if kind not in ('spawn', 'reap', 'kill', 'start', 'stop'):
            continue
        pid = (payload or {}).get('process_pid')
        if kind == 'spawn' and pid not in pid_rank:
            pid_rank[pid] = len(pid_rank) + 1
        ent = [kind]
        if pid is not None:
            ent.append(pid_rank.get(pid, '?'))
        if kind == 'reap':
            ent.append((payload or {}).get('exit_code'))
        out.append(ent)
    return out


def canon_phase(evs):
    """Within one phase (between two harness steps) the order of events about DIFFERENT workers is not fixed in real
    time; per worker it is.  Canonical form: sort by worker rank, stable."""
    return sorted(evs, key=lambda e: (str(e[1]) if len(e) > 1 else '', ))


# ------------------------------------------------------------------ live side
def run_live(name):
    opts, mode, steps = HISTORIES[name]
    import zmq
    sys.path.insert(0, REPO)
    from circus.client import CircusClient
    d = tempfile.mkdtemp(prefix='vt-live-')
    ep, pub = 'ipc://%s/ctl' % d, 'ipc://%s/pub' % d
    ini = os.path.join(d, 'c.ini')
    with open(ini, 'w') as f:
        f.write('[circus]\ncheck_delay = 0.3\nendpoint = %s\npubsub_endpoint = %s\n\n[watcher:a]\n'
                'cmd = %s -S %s %s\n' % (ep, pub, sys.executable, WORKER, mode))
        for k, v in opts.items():
            f.write('%s = %s\n' % (k, v))
    ctx = zmq.Context()
    sub = ctx.socket(zmq.SUB)
    sub.setsockopt(zmq.SUBSCRIBE, b'watcher.')
    sub.connect(pub)
    env = dict(os.environ, PYTHONPATH=REPO)
    proc = subprocess.Popen([sys.executable, '-m', 'circus.circusd', ini], env=env, cwd=d,
                            stdout=subprocess.DEVNULL, stderr=subprocess.DEVNULL)
    client = CircusClient(endpoint=ep, timeout=10.0, context=ctx)
    events, phases, replies = [], [], []
    pid_rank = {}

    def drain(quiet=0.6, limit=8.0):
        t0 = time.monotonic()
        last = t0
        got = []
        while time.monotonic() - last < quiet and time.monotonic() - t0 < limit:
            if sub.poll(50):
                topic, payload = sub.recv_multipart()
                got.append((topic.decode(), json.loads(payload)))
                last = time.monotonic()
        return got
    try:
        # wait for the daemon
        t0 = time.monotonic()
        while True:
            try:
                r = client.call({'command': 'numprocesses', 'properties': {'name': 'a'}})
                if r.get('numprocesses') == opts['numprocesses']:
                    break
            except Exception:
                pass
            if time.monotonic() - t0 > 15:
                raise RuntimeError('circusd did not come up')
            time.sleep(0.1)
        drain()         # events of the boot phase may predate the subscription (PUB/SUB slow joiner): not compared
        for pid in sorted(client.call({'command': 'list', 'properties': {'name': 'a'}})['pids']):
            pid_rank[pid] = len(pid_rank) + 1
        for st in steps:
            if st[0] in ('killworker', 'sigworker'):
                pids = sorted(client.call({'command': 'list', 'properties': {'name': 'a'}})['pids'])
                os.kill(pids[st[1]], st[2])
                continue
            if st[0] == 'req':
                r = client.call({'command': st[1], 'properties': dict(st[2])})
                replies.append({k: v for k, v in r.items() if k in ('status', 'numprocesses')})
                continue
            if st[0] == 'settle':
                phases.append(canon_phase(abstract(drain(), pid_rank)))
        final = client.call({'command': 'status', 'properties': {'name': 'a'}}).get('status')
        npr = client.call({'command': 'numprocesses', 'properties': {'name': 'a'}}).get('numprocesses')
        return {'phases': phases, 'replies': replies, 'final': [final, npr]}
    finally:
        try:
            client.call({'command': 'quit', 'properties': {}})
        except Exception:
            pass
        try:
            proc.wait(10)
        except Exception:
            proc.kill()
        sub.close()
        client.stop()
        import psutil
        for p in psutil.process_iter(['cmdline']):
            try:
                if WORKER in ' '.join(p.info['cmdline'] or []) and d in ' '.join(p.cmdline() + [p.cwd()]):
                    p.kill()
            except Exception:
                pass
        shutil.rmtree(d, ignore_errors=True)


# ------------------------------------------------------------------- sim side
def run_sim(name):
    opts, mode, steps = HISTORIES[name]
    sys.path.insert(0, HERE)
    sys.path.insert(0, REPO)
    from vt.world import World, WSpec
    from vt.explorer import Chooser
    from vt.simkernel import Behaviour, OBEDIENT, wstatus_signal, wstatus_exit
    beh = {'obedient': OBEDIENT,
           'stubborn': Behaviour('stubborn', {15: ('ignore',), 2: ('ignore',), 1: ('ignore',), 12: ('ignore',)}),
           'exit3': Behaviour('exit3', {10: ('exit', 3, 0.0)})}[mode]
    w = World(Chooser(), [WSpec('a', behaviours=[beh], **opts)], check_delay=0.3)
    pid_rank, phases, replies = {}, [], []
    seen = [0]

    def new_events():
        evs = [(t, p) for (_, t, p) in w.events()][seen[0]:]
        seen[0] += len(evs)
        return evs
    try:
        w.boot()
        w.run(until=lambda x: x.boot_future.done(), horizon=5)
        w.run(horizon=0.7)
        abstract(new_events(), pid_rank)          # boot phase: assigns the ranks, not compared (see the live side)
        pending = None
        for st in steps:
            if st[0] in ('killworker', 'sigworker'):
                pids = sorted(w.watcher('a').processes)
                w.kernel.kill(pids[st[1]], st[2])
                continue
            if st[0] == 'req':
                pending = w.request(st[1], **dict(st[2]))
                w.run(until=lambda x: pending.replied(), horizon=10)
                r = pending.reply() or {}
                replies.append({k: v for k, v in r.items() if k in ('status', 'numprocesses')})
                continue
            if st[0] == 'settle':
                w.run(horizon=1.3)
                phases.append(canon_phase(abstract(new_events(), pid_rank)))
        final = (w.ask('status', name='a') or {}).get('status')
        npr = (w.ask('numprocesses', name='a') or {}).get('numprocesses')
        return {'phases': phases, 'replies': replies, 'final': [final, npr]}
    finally:
        w.close()


def main(names):
    """The simulated observation is deterministic; the live side runs on the real clock, where a loaded machine can cut a
    phase short.  Each history is therefore run live (in a fresh, unpatched process) up to three times; a mismatch is
    reported only if no live attempt equals the simulated observation."""
    out = {'histories': 0, 'mismatches': [], 'samples': [], 'live_attempts': 0}
    sims = {name: json.loads(json.dumps(run_sim(name))) for name in names}
    # the simulation patched time.time / time.sleep in this process; subprocess.run(timeout=...) polls with time.sleep, which
    # under load exceeded the virtual per-callback sleep budget and raised LoopBlocked (seen only in loaded sweeps)
    from vt import clock
    clock.uninstall()
    for name in names:
        attempts = []
        for k in range(3):
            out['live_attempts'] += 1
            try:
                r = subprocess.run([sys.executable, os.path.abspath(__file__), '--live-only', name],
                                   stdout=subprocess.PIPE, stderr=subprocess.DEVNULL, timeout=180, cwd='/')
                live = json.loads(r.stdout.decode())
            except Exception as e:
                live = {'error': repr(e)}
            attempts.append(live)
            if live == sims[name]:
                break
        out['histories'] += 1
        if len(out['samples']) < 2:
            out['samples'].append({'history': name, 'observations': attempts[-1]})
        if attempts[-1] != sims[name]:
            out['mismatches'].append({'history': name, 'live_attempts': attempts, 'sim': sims[name]})
    return out


if __name__ == '__main__':
    names = sys.argv[1:] or sorted(HISTORIES)
    if names[0] == '--live-only':
        json.dump(json.loads(json.dumps(run_live(names[1]))), sys.stdout)
    else:
        json.dump(main(names), sys.stdout)

"""evidence/<ID>.json writer."""
import json
import os

VERIF = os.path.dirname(os.path.dirname(os.path.abspath(__file__)))


def write(prop_id, tier, seed, level, coverage, assumptions, wall_s, violations):
    d = os.environ.get('VERIF_EVIDENCE_DIR') or os.path.join(VERIF, 'evidence')
    os.makedirs(d, exist_ok=True)
    body = {'property_id': prop_id, 'tier': tier, 'seed': int(seed), 'level': level,
            'coverage': coverage, 'assumptions': list(assumptions),
            'wall_s': round(float(wall_s), 2), 'violations': int(violations)}
    path = os.path.join(d, '%s.json' % prop_id)
    tmp = path + '.tmp'
    with open(tmp, 'w') as f:
        json.dump(body, f, indent=1, default=repr, sort_keys=True)
    os.replace(tmp, path)
    return path


def explorer_coverage(stats, meta, rule, extra=None):
    clauses = {k: {'evaluations': v[0], 'nontrivial': v[1]} for k, v in sorted(stats.clauses.items())}
    vac = sorted(k for k, v in stats.clauses.items() if v[1] == 0)
    cov = {
        'states': max(1, len(stats.states)) if stats.states else max(1, len(stats.outcomes)),
        'states_are': 'distinct canonical quiescent daemon states' if stats.states
                      else 'distinct observable outcomes (no quiescent-state digest in this check)',
        'transitions': max(1, stats.transitions),
        'transitions_are': 'loop iterations + injected events + kernel timer firings executed on the real daemon code',
        'traces_validated_against_impl': stats.executions,
        'evaluations': stats.executions,
        'distinct_nontrivial': len(stats.outcomes),
        'rule': rule,
        'executions': stats.executions,
        'choice_points_met': stats.points,
        'executions_by_deviation_count': {str(k): v for k, v in sorted(stats.by_dev.items())},
        'deviation_kinds_fired': dict(sorted(stats.kinds.items())),
        'distinct_outcomes': len(stats.outcomes),
        'aborted_executions': stats.aborted,
        'abort_reasons': stats.abort_reasons,
        'clauses': clauses,
        'vacuous_clauses': vac,
        'caps_hit': stats.capped,
        'exhaustive': stats.capped is None,
        'max_choice_points_in_one_execution': stats.max_depth,
        'samples': stats.samples or [{'note': 'no sample recorded'}],
    }
    cov.update(meta or {})
    if extra:
        cov.update(extra)
    return cov

"""Fake zmq transport: Context / Socket / ZMQStream that capture every frame the
daemon sends on its ROUTER (replies) and PUB (events) sockets."""
import zmq as _zmq

from vt.clock import CLOCK


class FakeSocket(object):
    def __init__(self, ctx, kind):
        self.ctx = ctx
        self.kind = kind
        self.closed = False
        self.linger = None
        self.bound = []
        self.sent = []            # list of frame-lists (multipart) or single frames

    def bind(self, endpoint):
        self.bound.append(endpoint)

    def connect(self, endpoint):
        self.bound.append(endpoint)

    def setsockopt(self, *a, **kw):
        pass

    def send_multipart(self, frames, *a, **kw):
        if self.closed:
            raise _zmq.ZMQError(_zmq.ENOTSOCK)
        self.sent.append(list(frames))
        self.ctx.on_send(self, list(frames))

    def send(self, data, flags=0, **kw):
        if self.closed:
            raise _zmq.ZMQError(_zmq.ENOTSOCK)
        self.sent.append([data])
        self.ctx.on_send(self, [data])

    def close(self, *a, **kw):
        self.closed = True


class FakeContext(object):
    def __init__(self):
        self.sockets = []
        self.events = []          # (t, topic, payload-bytes) from PUB sockets
        self.closed = False

    def socket(self, kind):
        s = FakeSocket(self, kind)
        self.sockets.append(s)
        return s

    def on_send(self, sock, frames):
        if sock.kind == _zmq.PUB:
            self.events.append((CLOCK.now, frames[0], frames[1] if len(frames) > 1 else None))

    def term(self):
        self.closed = True

    destroy = term

    def by_kind(self, kind):
        return [s for s in self.sockets if s.kind == kind]


class FakeStream(object):
    """zmqstream.ZMQStream replacement: records the reply frames."""
    registry = []

    def __init__(self, socket, loop=None):
        self.socket = socket
        self.loop = loop
        self._recv_cb = None
        self._closed = False
        self.frames = []          # (t, frame, flags)
        self.flushes = 0
        FakeStream.registry.append(self)

    def on_recv(self, cb):
        self._recv_cb = cb

    def send(self, data, flags=0, **kw):
        if self._closed:
            raise IOError("stream is closed")
        if isinstance(data, str):
            data = data.encode('utf8')
        self.frames.append((CLOCK.now, data, flags))

    def send_multipart(self, frames, **kw):
        for i, f in enumerate(frames):
            self.send(f, _zmq.SNDMORE if i < len(frames) - 1 else 0)

    def flush(self, *a, **kw):
        self.flushes += 1

    def close(self, *a, **kw):
        self._closed = True

    def closed(self):
        return self._closed

    def messages(self):
        """Group frames into multipart messages using SNDMORE."""
        out, cur = [], []
        for t, data, flags in self.frames:
            cur.append(data)
            if not (flags & _zmq.SNDMORE):
                out.append((t, cur))
                cur = []
        if cur:
            out.append((None, cur))       # dangling SNDMORE
        return out


class ModuleProxy(object):
    """A module look-alike that overrides some attributes."""

    def __init__(self, real, **over):
        object.__setattr__(self, '_real', real)
        object.__setattr__(self, '_over', over)

    def __getattr__(self, name):
        over = object.__getattribute__(self, '_over')
        if name in over:
            return over[name]
        return getattr(object.__getattribute__(self, '_real'), name)

"""Deviation-bounded stateless exploration.

An execution is a function run(chooser) that builds a fresh World, drives it and
evaluates oracles.  Every nondeterministic decision goes through
chooser.choose(kind, options): option 0 is the default, any other option is a
deviation (cost 1 unless stated).  explore() enumerates ALL choice lists whose
total cost stays within the bound (depth-first, iterative context bounding
style): run with a prefix, defaults afterwards; then for every later point and
every alternative, recurse.
"""
import hashlib
import json
import time as _time

perf = _time.perf_counter


class ReplayDivergence(Exception):
    pass


class Chooser(object):
    def __init__(self, prefix=(), expect=None, ctx=None):
        self.ctx = dict(ctx or {})
        self.prefix = list(prefix)
        self.expect = expect          # labels recorded for the prefix points, or None
        self.choices = []
        self.points = []              # (label, n_options, costs tuple)
        self.cost = 0
        self.frozen = False           # when True no further deviation is offered

    def choose(self, kind, options, cost=1, first_is_default=True):
        """options: list of labels.  If first_is_default is False, an implicit
        'default' option 0 is prepended.  Returns the index chosen (0 = default)."""
        if first_is_default:
            labels = list(options)
        else:
            labels = ['-'] + list(options)
        n = len(labels)
        i = len(self.choices)
        label = kind + ':' + '|'.join(labels)
        if i < len(self.prefix):
            c = self.prefix[i]
            if c >= n:
                raise ReplayDivergence('point %d: choice %d not in menu %s' % (i, c, label))
            if self.expect is not None and i < len(self.expect) and self.expect[i] != label:
                raise ReplayDivergence('point %d: label %r != recorded %r' % (i, label, self.expect[i]))
        else:
            c = 0
        self.choices.append(c)
        costs = (0,) + (cost,) * (n - 1)
        self.points.append((label, n, costs))
        self.cost += costs[c]
        return c

    @property
    def deviations(self):
        return sum(1 for c in self.choices if c)

    def chosen_labels(self):
        out = []
        for c, (label, n, costs) in zip(self.choices, self.points):
            if c:
                kind, rest = label.split(':', 1)
                out.append(kind + ':' + rest.split('|')[c])
        return out


class Violation(Exception):
    def __init__(self, clause, detail, where=None):
        Exception.__init__(self, '%s: %s' % (clause, detail))
        self.clause = clause
        self.detail = detail
        self.where = where


class Result(object):
    """What one execution reports back."""
    __slots__ = ('violations', 'aborted', 'outcome', 'clauses', 'states', 'info', 'final_state')

    def __init__(self):
        self.violations = []        # (clause, detail, where)
        self.aborted = None
        self.outcome = None         # hashable digest of the observable outcome
        self.clauses = {}           # clause -> [evaluations, nontrivial]
        self.states = []            # canonical quiescent-state digests met
        self.final_state = None     # digest of the quiescent state this execution ended in (graph search)
        self.info = {}

    def ev(self, clause, nontrivial=True):
        c = self.clauses.setdefault(clause, [0, 0])
        c[0] += 1
        if nontrivial:
            c[1] += 1

    def fail(self, clause, detail, where=None):
        self.violations.append((clause, detail, where))

    def check(self, clause, cond, detail='', where=None, nontrivial=True):
        self.ev(clause, nontrivial)
        if not cond:
            self.fail(clause, detail() if callable(detail) else detail, where)
        return cond


class Stats(object):
    def __init__(self):
        self.executions = 0
        self.points = 0
        self.by_dev = {}
        self.aborted = 0
        self.abort_reasons = {}
        self.clauses = {}
        self.outcomes = set()
        self.states = set()
        self.transitions = 0
        self.violations = []        # dicts
        self.capped = None
        self.max_depth = 0
        self.samples = []
        self.kinds = {}
        self.leftover = []
        self.finals = {}            # final_state digest -> (choices, labels) of the first execution reaching it

    def merge(self, o):
        self.executions += o.executions
        self.points += o.points
        self.aborted += o.aborted
        self.transitions += o.transitions
        self.max_depth = max(self.max_depth, o.max_depth)
        for k, v in o.by_dev.items():
            self.by_dev[k] = self.by_dev.get(k, 0) + v
        for k, v in o.abort_reasons.items():
            self.abort_reasons[k] = self.abort_reasons.get(k, 0) + v
        for k, v in o.clauses.items():
            c = self.clauses.setdefault(k, [0, 0])
            c[0] += v[0]
            c[1] += v[1]
        for k, v in o.kinds.items():
            self.kinds[k] = self.kinds.get(k, 0) + v
        self.outcomes |= o.outcomes
        self.states |= o.states
        self.violations.extend(o.violations)
        for k, v in o.finals.items():
            self.finals.setdefault(k, v)
        if o.capped and not self.capped:
            self.capped = o.capped
        for s in o.samples:
            if len(self.samples) < 6:
                self.samples.append(s)


def digest(obj):
    return hashlib.sha1(json.dumps(obj, sort_keys=True, default=repr).encode()).hexdigest()[:16]


def explore(run, bound, prefix=(), expect=None, stats=None, deadline=None,
            max_violations=5, scenario=None, branch_filter=None, min_point=None, ctx=None, max_exec=None,
            initial_stack=None):
    """Enumerate every choice list extending `prefix` with total cost <= bound.
    run(chooser) -> Result.  Points before len(prefix) are never branched.
    branch_filter(label_kind) can restrict which points are branched (used to
    split work); min_point overrides the first branchable index."""
    st = stats if stats is not None else Stats()
    stack = initial_stack if initial_stack is not None else \
        [(list(prefix), expect, len(prefix) if min_point is None else min_point)]
    n_here = 0
    st.leftover = []
    while stack:
        if max_exec is not None and n_here >= max_exec and len(stack) > 1:
            # hand the rest of this subtree back to the master (work re-balancing): nothing is dropped
            st.leftover = stack
            break
        n_here += 1
        if deadline is not None and perf() > deadline:
            st.capped = 'time'
            break
        pre, exp, first = stack.pop()
        ch = Chooser(pre, exp, ctx)
        res = run(ch)
        st.executions += 1
        if res.final_state is not None and res.final_state not in st.finals:
            st.finals[res.final_state] = (list(ch.choices), [p[0] for p in ch.points])
        st.points += len(ch.points)
        st.transitions += res.info.get('transitions', 0)
        st.max_depth = max(st.max_depth, len(ch.points))
        d = ch.deviations
        st.by_dev[d] = st.by_dev.get(d, 0) + 1
        for lab in ch.chosen_labels():
            k = lab.split(':', 2)[1].split('(')[0] if ':' in lab else lab
            st.kinds[k] = st.kinds.get(k, 0) + 1
        if res.aborted:
            st.aborted += 1
            key = res.aborted.split(':')[0][:60]
            st.abort_reasons[key] = st.abort_reasons.get(key, 0) + 1
        for k, v in res.clauses.items():
            c = st.clauses.setdefault(k, [0, 0])
            c[0] += v[0]
            c[1] += v[1]
        if res.outcome is not None:
            st.outcomes.add(res.outcome)
        for s in res.states:
            st.states.add(s)
        if len(st.samples) < 6 and (d > 0 or st.executions == 1):
            st.samples.append({'scenario': scenario, 'deviations': ch.chosen_labels(),
                               'outcome': res.info.get('summary')})
        for clause, detail, where in res.violations:
            if len(st.violations) < 200:
                st.violations.append({
                    'clause': clause, 'detail': detail, 'where': where, 'scenario': scenario, 'ctx': ctx,
                    'choices': list(ch.choices), 'labels': [p[0] for p in ch.points],
                    'deviations': ch.chosen_labels()})
        if ch.cost >= bound:
            continue
        labels = [p[0] for p in ch.points]
        # push in reverse so that the earliest point / lowest alternative runs first
        todo = []
        for i in range(first, len(ch.points)):
            label, n, costs = ch.points[i]
            if ch.choices[i] != 0:
                continue
            if branch_filter is not None and not branch_filter(i, label):
                continue
            for alt in range(1, n):
                if ch.cost + costs[alt] > bound:
                    continue
                todo.append((ch.choices[:i] + [alt], labels[:i + 1], i + 1))
        stack.extend(reversed(todo))
    return st

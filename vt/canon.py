"""Canonical form of a quiescent daemon state (for the state-graph search).

Deliberately over-fine: everything not known to be irrelevant stays in, which
costs time, never soundness.  Normalisations (each with its argument):
  * pids -> rank in the owning watcher's `processes` insertion order (circus never
    branches on the numeric value of a pid; it does iterate `processes` in
    insertion order, so that order is kept);
  * absolute times -> difference to now (rounded to 1e-4), `Process.started` ->
    its rank among siblings (used only for oldest-first removal), exact age kept
    when max_age is on;
  * harness counters that decide future worker behaviour are capped at the point
    where the behaviour list stops changing.
"""
from vt.clock import CLOCK, EPOCH
from vt.explorer import digest
from vt.simkernel import RUNNING, ZOMBIE, REAPED


def _opt(v):
    if isinstance(v, (int, float, str, bool, type(None))):
        return v
    if isinstance(v, dict):
        return {str(k): _opt(x) for k, x in sorted(v.items(), key=lambda kv: str(kv[0]))}
    if isinstance(v, (list, tuple)):
        return [_opt(x) for x in v]
    return getattr(v, '__name__', type(v).__name__)


def watcher_state(world, w):
    k = world.kernel
    procs = list(w.processes.values())
    started_sorted = sorted(set(p.started for p in procs))
    plist = []
    for p in procs:
        kp = k.procs.get(p.pid)
        ent = [p.wid, bool(p.stopping), kp.state if kp else None, started_sorted.index(p.started),
               kp.behaviour.name if kp else None]
        if w.max_age:
            ent.append(round(CLOCK.now + EPOCH - p.started, 4))
        plist.append(ent)
    listed = set(w.processes)
    stray = sorted((kp.state, kp.behaviour.name) for kp in k.spawn_log
                   if (kp.watcher or '').lower() == w.name.lower() and kp.pid not in listed and kp.state != REAPED)
    spec = world.specs.get(w.name.lower())
    nb = world.spawn_counts.get(w.name.lower(), 0)
    if spec is not None and spec.behaviours is not None and not callable(spec.behaviours):
        nb = min(nb, len(spec.behaviours) - 1)
    elif spec is None or spec.behaviours is None:
        nb = 0
    try:
        opts = [(name, _opt(val)) for name, val in w.options()]
    except Exception as e:
        opts = repr(e)
    return {'name': w.name, 'status': w._status, 'np': w.numprocesses, 'opts': opts, 'procs': plist,
            'stray': stray, 'found_wids': list(w._found_wids) if w._found_wids else [],
            'redirector': w.stream_redirector is not None, 'spawned_idx': nb,
            'hooks': sorted(w.hooks), 'ignore': sorted(set(w.ignore_hook_failure))}


def state(world):
    a = world.arbiter
    timers = [round(t - CLOCK.now, 4) for t in world.loop.live_timers()]
    return {
        'watchers': [watcher_state(world, w) for w in a.watchers],
        'names': sorted(a._watchers_names),
        'slot': a._exclusive_running_command, 'stopping': a._stopping, 'restarting': a._restarting,
        'timers': timers,
        'ktimers': [round(t - CLOCK.now, 4) for (t, _, _, _) in world.kernel.timers],
        'unowned': sorted(kp.state for kp in world.kernel.spawn_log
                          if kp.state != REAPED and world.watcher(kp.watcher or '') is None),
        'popen_attempts': world.kernel.popen_attempts if world.kernel.popen_fault is not None else None,
        'hook_state': sorted(getattr(world, 'hook_counters', {}).items()),
    }


def canon(world):
    return digest(state(world))

"""World: one real circus daemon (Arbiter + Controller + Watchers + commands) on
a VLoop, a SimKernel and fake zmq.  One World per execution.
"""
import gc
import json
import logging
import os
import signal as _signal
import socket as _socket
import sys
import warnings

from vt import clock as _clock
from vt.clock import CLOCK, LoopBlocked
from vt.vloop import VLoop, make_current, unmake_current, TIE_TOL
from vt.simkernel import SimKernel, PID_BASE, RUNNING, ZOMBIE, REAPED
from vt import fakezmq

CURRENT = None          # the World of the execution in progress
_installed = False
_real_waitpid = os.waitpid
_real_kill = os.kill


class DaemonKilled(BaseException):
    """A signal whose disposition is the default one was delivered to the daemon: the process is gone."""

    def __init__(self, signum):
        BaseException.__init__(self, 'daemon killed by signal %d' % signum)
        self.signum = signum


# the daemon's signal dispositions (signal.signal / signal.getsignal as circus.sighandler sees them)
DISPOSITIONS = {}


def _reset_dispositions():
    DISPOSITIONS.clear()
    DISPOSITIONS[int(_signal.SIGINT)] = _signal.default_int_handler


def _set_disposition(signum, handler):
    old = DISPOSITIONS.get(int(signum), _signal.SIG_DFL)
    DISPOSITIONS[int(signum)] = handler
    return old


def _get_disposition(signum):
    return DISPOSITIONS.get(int(signum), _signal.SIG_DFL)


class Abort(Exception):
    """The execution cannot continue (loop blocked, horizon exceeded...)."""


class ReplayDivergence(Exception):
    pass


class LogCapture(logging.Handler):
    def __init__(self):
        super().__init__(level=logging.ERROR)
        self.records = []

    def emit(self, record):
        try:
            msg = record.getMessage()
        except Exception:
            msg = str(record.msg)
        if record.exc_info and record.exc_info[1] is not None:
            msg += ' :: ' + repr(record.exc_info[1])
        self.records.append((record.name, msg))


LOGCAP = LogCapture()


def _sim_popen(*a, **kw):
    return CURRENT.kernel.Popen(*a, **kw)


def _waitpid(pid, options):
    w = CURRENT
    if w is not None and (pid == -1 or pid >= PID_BASE):
        return w.kernel.waitpid(pid, options)
    return _real_waitpid(pid, options)


def _kill(pid, sig):
    w = CURRENT
    if w is not None:
        if pid >= PID_BASE or pid in w.kernel.foreign:
            return w.kernel.kill(pid, sig)
        if sig == 0:
            return _real_kill(pid, 0)
        # a real pid while a simulated daemon is running: never deliver, but make it observable
        w.kernel.signal_log.append((CLOCK.now, pid, int(sig), 'os.kill(REAL PID)'))
        w.kernel.stray_real_signals.append((pid, int(sig)))
        return None
    return _real_kill(pid, sig)


class _CtxFactory(object):
    @staticmethod
    def instance():
        return CURRENT.ctx

    def __call__(self, *a, **kw):
        return CURRENT.ctx


def _randint(a, b):
    w = CURRENT
    if w is None or w.randint_hook is None:
        return a
    return w.randint_hook(a, b)


def install():
    """Install the seams (once per explorer worker process)."""
    global _installed
    if _installed:
        return
    warnings.simplefilter('ignore')
    _clock.install()
    import zmq
    from zmq.eventloop import zmqstream
    import circus.process
    import circus.arbiter
    import circus.controller
    import circus.sighandler
    import circus.watcher
    circus.process.Popen = _sim_popen
    os.waitpid = _waitpid
    os.kill = _kill
    circus.controller.zmqstream = fakezmq.ModuleProxy(zmqstream, ZMQStream=fakezmq.FakeStream)
    circus.arbiter.zmq = fakezmq.ModuleProxy(zmq, Context=_CtxFactory())
    circus.arbiter.socket = fakezmq.ModuleProxy(_socket, getfqdn=lambda *a: 'simhost')
    circus.arbiter._setproctitle = lambda title: None
    circus.sighandler.signal = fakezmq.ModuleProxy(
        _signal, signal=_set_disposition, getsignal=_get_disposition,
        siginterrupt=lambda *a: None)
    circus.watcher.randint = _randint
    circus.controller.os = fakezmq.ModuleProxy(os, chown=lambda *a, **k: None)
    for name in ('circus', 'tornado.application', 'tornado.general', 'asyncio'):
        lg = logging.getLogger(name)
        lg.handlers[:] = [LOGCAP]
        lg.propagate = False
        lg.setLevel(logging.ERROR)
    _installed = True


_MODSTATE = None


def _snapshot_module_state():
    """Remember the contents of every module-level and class-level mutable container of circus.*, so that each
    execution starts from the same library state (state hoisted to module / class scope must not travel from one
    execution to the next: it would make verdicts depend on which executions shared a worker process)."""
    import copy
    snap = []
    for name, mod in list(sys.modules.items()):
        if not (name == 'circus' or name.startswith('circus.')) or mod is None:
            continue
        holders = [mod]
        for v in list(vars(mod).values()):
            if isinstance(v, type) and getattr(v, '__module__', None) == name:
                holders.append(v)
        for h in holders:
            for attr, v in list(vars(h).items()):
                if attr.startswith('__') or attr == 'KNOWN_COMMANDS':
                    continue
                if isinstance(v, (list, dict, set)) and not isinstance(v, type):
                    try:
                        snap.append((h, attr, v, copy.copy(v)))
                    except Exception:
                        pass
    return snap


def _restore_module_state():
    global _MODSTATE
    if _MODSTATE is None:
        _MODSTATE = _snapshot_module_state()
        return
    seen = set()
    for h, attr, obj, content in _MODSTATE:
        seen.add((id(h), attr))
        if vars(h).get(attr) is not obj:
            try:
                setattr(h, attr, obj)
            except Exception:
                pass
        if isinstance(obj, list):
            obj[:] = content
        elif isinstance(obj, dict):
            obj.clear()
            obj.update(content)
        elif isinstance(obj, set):
            obj.clear()
            obj.update(content)


class Request(object):
    def __init__(self, world, cid, mid, command, props, cast, raw, t):
        self.world = world
        self.cid = cid
        self.mid = mid
        self.command = command
        self.props = props
        self.cast = cast
        self.raw = raw
        self.t = t
        self.escaped = None          # exception that escaped handle_message
        self.t_handled = None

    def raw_replies(self):
        return [(t, fr) for (t, fr) in self.world.stream_messages() if fr and fr[0] == self.cid]

    def replies(self):
        out = []
        for t, fr in self.raw_replies():
            try:
                out.append((t, json.loads(fr[1])))
            except Exception:
                out.append((t, None))
        return out

    def reply(self):
        r = self.replies()
        return r[0][1] if r else None

    def replied(self):
        return bool(self.raw_replies())

    def ok(self):
        r = self.reply()
        return bool(r) and r.get('status') == 'ok'

    def __repr__(self):
        return 'Request(%s %s)' % (self.command, self.props)


class WSpec(object):
    """Watcher specification for World (kwargs go to circus.watcher.Watcher)."""

    def __init__(self, name, numprocesses=1, behaviours=None, cmd='sleep 60', **opts):
        self.name = name
        self.cmd = cmd
        self.opts = dict(opts, numprocesses=numprocesses)
        # behaviours: list applied to the k-th spawned process of this watcher
        # (last one repeats) or a callable(k) -> Behaviour
        self.behaviours = behaviours


def _is_request(ev, depth=0):
    from vt.events import Req
    if isinstance(ev, Req):
        return True
    inner = getattr(ev, 'ev', None)
    return inner is not None and depth < 3 and _is_request(inner, depth + 1)


class World(object):

    def __init__(self, chooser, specs=(), arbiter_kw=None, check_delay=1.0,
                 config_file=None, sockets=None, endpoint='tcp://127.0.0.1:5555'):
        global CURRENT
        install()
        self.ex = chooser
        self.specs = {s.name.lower(): s for s in specs}
        self.spec_list = list(specs)
        CLOCK.reset()
        del LOGCAP.records[:]
        fakezmq.FakeStream.registry[:] = []
        self.kernel = SimKernel()
        self.kernel.behaviour_for = self._behaviour_for
        self.ctx = fakezmq.FakeContext()
        self.loop = VLoop()
        make_current(self.loop)
        from tornado import ioloop
        self.ioloop = ioloop.IOLoop.current()
        self.randint_hook = None
        self.requests = []
        self._cid = 0
        self.arbiter = None
        self.boot_future = None
        self.trace = []              # (t, kind, detail) of harness-level events
        self.closed = False
        self.spawn_counts = {}
        self.arbiter_kw = dict(arbiter_kw or {})
        self.check_delay = check_delay
        self.config_file = config_file
        self.sockets = sockets
        self.endpoint = endpoint
        self.hook_calls = []         # (t, watcher, hook_name, outcome)
        self.steps = 0
        self.max_steps = 20000
        CURRENT = self
        CLOCK.on_sleep = self._while_daemon_sleeps
        import circus.util
        circus.util._PROCS.clear()
        _restore_module_state()
        _reset_dispositions()

    # ------------------------------------------------------------------
    def _behaviour_for(self, kernel, proc):
        name = (proc.watcher or '').lower()
        k = self.spawn_counts.get(name, 0)
        self.spawn_counts[name] = k + 1
        spec = self.specs.get(name)
        if spec is None or spec.behaviours is None:
            return None
        b = spec.behaviours
        if callable(b):
            return b(k)
        return b[k] if k < len(b) else b[-1]

    def _while_daemon_sleeps(self):
        k = self.kernel
        while k.timers and k.timers[0][0] <= CLOCK.now + 1e-12:
            t, _, fn, label = k.timers.pop(0)
            fn()
            self.trace.append((CLOCK.now, 'ktimer(during sleep)', label))

    def blocked_site(self):
        bw = CLOCK.blocked_where or []
        return 'blocked@' + (bw[-1].split(':')[-1] if bw else '?')

    def build(self):
        from circus.arbiter import Arbiter
        from circus.watcher import Watcher
        if self.config_file is not None:
            self.arbiter = Arbiter.load_from_config(self.config_file, loop=self.ioloop)
        else:
            watchers = [Watcher(s.name, s.cmd, loop=self.ioloop, **s.opts) for s in self.spec_list]
            self.arbiter = Arbiter(watchers, self.endpoint, 'tcp://127.0.0.1:5556',
                                   check_delay=self.check_delay, context=self.ctx,
                                   loop=self.ioloop, sockets=self.sockets, **self.arbiter_kw)
        return self.arbiter

    def boot(self):
        if self.arbiter is None:
            self.build()
        self.boot_future = self.arbiter.start()
        return self.boot_future

    @property
    def ctrl(self):
        return self.arbiter.ctrl

    def stream_messages(self):
        out = []
        for s in fakezmq.FakeStream.registry:
            out.extend(s.messages())
        return out

    def events(self):
        """Decoded PUB events: (t, topic-str, payload-dict)."""
        out = []
        for t, topic, payload in self.ctx.events:
            try:
                p = json.loads(payload)
            except Exception:
                p = None
            out.append((t, topic.decode('utf8', 'replace'), p))
        return out

    # --- requests --------------------------------------------------------
    def send_raw(self, frames, command=None, props=None, mid=None, cast=False):
        """Deliver raw frames to the controller as the zmq stream would."""
        cid = frames[0] if frames else None
        req = Request(self, cid, mid, command, props, cast, frames, CLOCK.now)
        self.requests.append(req)
        self.loop.asleep = False       # a readable control socket ends the selector's wait
        CLOCK.begin_callback()
        try:
            self.ctrl.handle_message(frames)
        except LoopBlocked:
            pass
        except Exception as e:         # escaped to the zmq stream machinery
            req.escaped = repr(e)
        req.t_handled = CLOCK.now
        self.check_blocked()
        return req

    def request(self, command, cast=False, mid='auto', **props):
        self._cid += 1
        cid = ('c%d' % self._cid).encode()
        if mid == 'auto':
            mid = 'm%d' % self._cid
        msg = {'command': command, 'properties': props}
        if mid is not None:
            msg['id'] = mid
        if cast:
            msg['msg_type'] = 'cast'
        self.trace.append((CLOCK.now, 'request', command, dict(props)))
        return self.send_raw([cid, json.dumps(msg).encode()], command, props, mid, cast)

    def signal_daemon(self, signum):
        self.trace.append((CLOCK.now, 'daemon-signal', int(signum)))
        h = _get_disposition(signum)
        if h is _signal.SIG_IGN:
            return
        if h is _signal.SIG_DFL:
            raise DaemonKilled(int(signum))
        loop = self.loop
        blocked = not loop._ready and not loop.vsel.peek() and not loop.asleep     # the loop sits in its selector
        deadline = loop.next_timer()
        h(int(signum), None)        # the handler circus registered - or Python's own for SIGINT (KeyboardInterrupt)
        if blocked and not loop.vsel.peek():
            # nothing the handler did wakes the selector up (no byte in the wake-up pipe)
            loop.asleep, loop.asleep_deadline = True, deadline

    # --- external events ---------------------------------------------------
    def die(self, pid, wstatus):
        self.trace.append((CLOCK.now, 'die', pid, wstatus))
        return self.kernel.die(pid, wstatus, cause='external')

    # --- driving -------------------------------------------------------
    def check_blocked(self):
        from vt import watchdog
        watchdog.check()
        if CLOCK.blocked is not None:
            raise Abort('blocked: %s' % CLOCK.blocked)

    def step(self, menu=None, tie_cost=1):
        """One L-point followed by (at most) one loop iteration / time advance.
        Returns 'event', 'iter', 'ktimer' or 'idle'."""
        self.steps += 1
        if self.steps > self.max_steps:
            raise Abort('step horizon exceeded')
        if menu is not None:
            evs = menu(self)
            if evs and not self.can_receive():
                # the controller's stream is closed (the daemon is shutting down): no client request can reach
                # handle_message any more, so requests are not part of the event alphabet from here on
                evs = [e for e in evs if not _is_request(e)]
            if evs:
                c = self.ex.choose('L', [e.label for e in evs], first_is_default=False)
                if c > 0:
                    ev = evs[c - 1]
                    self.trace.append((CLOCK.now, 'inject', ev.label))
                    ev.apply(self)
                    self.check_blocked()
                    return 'event'
        loop, kernel = self.loop, self.kernel
        if loop.runnable_now():
            loop.iterate()
            self.check_blocked()
            return 'iter'
        tL, tK = loop.next_timer(), kernel.next_timer()
        if tL is None and tK is None:
            return 'idle'
        if tK is not None and (tL is None or tK <= tL + TIE_TOL):
            if tL is not None and abs(tK - tL) <= TIE_TOL:
                c = self.ex.choose('tie', ['kernel-first', 'loop-first'], cost=tie_cost)
                if c == 1:
                    CLOCK.advance_to(tL)
                    loop.iterate()
                    self.check_blocked()
                    return 'iter'
            label = kernel.fire_next_timer()
            self.trace.append((CLOCK.now, 'ktimer', label))
            return 'ktimer'
        CLOCK.advance_to(tL)
        loop.iterate()
        self.check_blocked()
        return 'iter'

    def can_receive(self):
        ctrl = getattr(self.arbiter, 'ctrl', None)
        stream = getattr(ctrl, 'stream', None)
        if ctrl is None or stream is None:
            return True
        try:
            return not stream.closed()
        except Exception:
            return True

    def slot(self):
        return self.arbiter._exclusive_running_command

    def extra_timers(self):
        """Live loop timers other than the periodic check's own timer."""
        per = getattr(getattr(self.arbiter.ctrl, 'caller', None), '_timeout', None)
        return [h._when for h in self.loop._scheduled if not h._cancelled and h is not per]

    def stopping_processes(self):
        return [p for w in self.arbiter.watchers for p in w.processes.values() if p.stopping]

    def quiescent(self):
        if self.slot() is not None or self.loop.has_ready() or self.kernel.timers:
            return False
        if self.boot_future is not None and not self.boot_future.done():
            return False
        if len(self.loop.live_timers()) > 1:
            return False
        if self.stopping_processes():
            return False
        if self.loop.fds_ready():
            return False
        return True

    def run(self, until=None, horizon=None, menu=None, tie_cost=1):
        """Step until `until(world)` holds (checked before each step), the
        virtual-time horizon passes, or the loop goes idle.  Returns the reason."""
        t_end = None if horizon is None else CLOCK.now + horizon
        while True:
            if until is not None and until(self):
                return 'until'
            if t_end is not None:
                nt = self._next_time()
                if CLOCK.now > t_end + 1e-9 or (not self.loop.runnable_now() and
                                                   (nt is None or nt > t_end + 1e-9)):
                    if not (menu is not None and False):
                        CLOCK.advance_to(min(t_end, nt) if nt is not None else t_end)
                        return 'horizon'
            r = self.step(menu, tie_cost)
            if r == 'idle':
                return 'idle'

    def _next_time(self):
        ts = [t for t in (self.loop.next_timer(), self.kernel.next_timer()) if t is not None]
        return min(ts) if ts else None

    def run_checks(self, n):
        """Run until n more periodic checks have completed."""
        target = self.kernel.counters.get('waitpid(-1)', 0)
        # a periodic check = one manage_watchers run; detect through its timer firing
        self.run(horizon=n * self.check_delay + 1e-6)

    def settle(self, checks=3, extra=0.0):
        return self.run(horizon=checks * self.check_delay + extra)

    # --- observation helpers ---------------------------------------------
    def watcher(self, name):
        return self.arbiter._watchers_names.get(name.lower())

    def procs_of(self, name, states=None):
        out = [p for p in self.kernel.spawn_log if (p.watcher or '').lower() == name.lower()]
        if states is not None:
            out = [p for p in out if p.state in states]
        return out

    def ask(self, command, **props):
        """Send a read-only request and return the reply object (must be immediate)."""
        req = self.request(command, **props)
        return req.reply()

    # --- teardown -----------------------------------------------------
    def close(self):
        global CURRENT
        if self.closed:
            return
        self.closed = True
        try:
            self.kernel.close_all()
            if self.arbiter is not None and self.arbiter.sockets:
                try:
                    self.arbiter.sockets.close_all()
                except Exception:
                    pass
            # cancel everything still scheduled so nothing outlives the execution
            for h in list(self.loop._scheduled):
                h.cancel()
            self.loop._ready.clear()
            try:
                self.ioloop.close()
            except Exception:
                try:
                    self.loop.close()
                except Exception:
                    pass
        finally:
            unmake_current()
            CURRENT = None
        from vt import simkernel
        if simkernel.MODEL_ERRORS:
            errs = list(simkernel.MODEL_ERRORS)
            del simkernel.MODEL_ERRORS[:]
            raise simkernel.ModelError('the environment model raised: %s' % errs[0])

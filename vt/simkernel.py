"""SimKernel: the environment model — the kernel's process table and psutil's
reading of it.  Semantics are fixed by the conformance matrix (vt/live.py),
which runs the same calls against real psutil.Popen children.

Daemon-facing surface:
  kernel.Popen(...)                -> SimPopen        (replaces circus.process.Popen)
  kernel.waitpid(pid, options)     -> replaces os.waitpid for sim pids / -1
  kernel.kill(pid, sig)            -> replaces os.kill for sim pids
Every daemon-facing call is preceded by kernel.kpoint(name, pid): the
explorer's K-point (a running worker may die right there, or the spawn fail).
"""
import errno
import os
import signal
import sys

import psutil

from vt.clock import CLOCK

RUNNING, ZOMBIE, REAPED = 'RUNNING', 'ZOMBIE', 'REAPED'
PID_BASE = 5_000_000          # above pid_max: never a real pid

MODEL_ERRORS = []             # exceptions raised by the MODEL itself (a harness bug, never daemon behaviour)


class ModelError(Exception):
    pass


def _guard(fn):
    """Daemon-facing model entry point: an exception that is not part of the modelled interface (OSError, psutil's,
    ValueError, subprocess.TimeoutExpired) is a bug of the model.  It is recorded so that the execution is reported as a
    harness crash even when the daemon swallows it (circus catches broad exceptions in places)."""
    import functools
    import subprocess

    @functools.wraps(fn)
    def wrapper(*a, **kw):
        try:
            return fn(*a, **kw)
        except (OSError, psutil.Error, ValueError, subprocess.TimeoutExpired):
            raise
        except Exception as e:
            if getattr(e, '_vt_injected', False):
                raise          # a fault the scenario asked for
            import traceback
            MODEL_ERRORS.append('%s: %s' % (fn.__name__, traceback.format_exc()[-800:]))
            raise
    return wrapper


def _guard_class(cls):
    for k, v in list(vars(cls).items()):
        if callable(v) and not k.startswith('_'):
            setattr(cls, k, _guard(v))
    return cls


IGNORED_BY_DEFAULT = {int(signal.SIGCHLD), int(signal.SIGWINCH), int(signal.SIGURG),
                      int(signal.SIGCONT)}


def wstatus_exit(code):
    return (code & 0xFF) << 8


def wstatus_signal(sig):
    return sig & 0x7F


class Behaviour(object):
    """How a simulated worker reacts to signals.
    reactions: {signum: ('die', delay) | ('exit', code, delay) | ('ignore',)}
    Signals not mentioned get the default disposition (terminate at once, or
    ignore for CHLD/WINCH/URG/CONT).  SIGKILL cannot be caught."""

    def __init__(self, name='obedient', reactions=None, children=(), kill_latency=0.0, last_words=0):
        self.name = name
        self.last_words = last_words          # bytes written to stdout at the very moment a delayed death takes place
        self.reactions = dict(reactions or {})
        self.children = tuple(children)      # behaviours of child processes
        self.kill_latency = kill_latency

    def reaction(self, sig):
        sig = int(sig)
        if sig == signal.SIGKILL:
            return ('die', self.kill_latency)
        if sig == signal.SIGSTOP:
            return ('ignore',)
        if sig in self.reactions:
            return self.reactions[sig]
        if '*' in self.reactions:
            return self.reactions['*']
        if sig in IGNORED_BY_DEFAULT:
            return ('ignore',)
        return ('die', 0.0)

    def __repr__(self):
        return 'Behaviour(%s)' % self.name


OBEDIENT = Behaviour('obedient')


def slow(d, name=None):
    return Behaviour(name or 'slow(%g)' % d, {'*': ('die', d)})


def exits(code, d=0.0):
    return Behaviour('exits(%d,%g)' % (code, d), {'*': ('exit', code, d)})


STUBBORN = Behaviour('stubborn', {'*': ('ignore',)})


class Proc(object):
    __slots__ = ('pid', 'parent', 'children', 'state', 'wstatus', 'behaviour', 'argv',
                 'env', 'cwd', 'close_fds', 'shell', 'executable', 'spawn_time',
                 'death_time', 'signals', 'out_w', 'err_w', 'watcher', 'wid', 'role',
                 'inherit_fds', 'is_worker', 'popen', 'reaped_by', 'pending_death', 'pass_fds', 'orig_parent', 'child_fds', 'death_seq', 'death_cause', 'said')

    def __init__(self, pid):
        self.pid = pid
        self.parent = None
        self.children = []
        self.state = RUNNING
        self.wstatus = None
        self.behaviour = OBEDIENT
        self.argv = None
        self.env = None
        self.cwd = None
        self.close_fds = None
        self.shell = False
        self.executable = None
        self.spawn_time = CLOCK.now
        self.death_time = None
        self.death_cause = None
        self.said = None
        self.signals = []            # (t, signum, sent_by)
        self.out_w = self.err_w = None
        self.watcher = None
        self.wid = None
        self.role = None
        self.inherit_fds = None
        self.is_worker = False
        self.popen = None
        self.reaped_by = None
        self.pending_death = False
        self.pass_fds = ()
        self.orig_parent = None
        self.child_fds = None
        self.death_seq = None


class SimKernel(object):

    def __init__(self):
        self.procs = {}
        self.next_pid = PID_BASE
        self.daemon_children = []      # pids, in creation order
        self.timers = []               # (t, seq, fn, label)
        self._seq = 0
        self.spawn_log = []            # Proc, in order
        self.signal_log = []           # (t, pid, signum, via)
        self.signal_seq = []           # event_seq of each signal_log entry
        self.call_log = []             # (t, call, pid, result)  optional
        self.record_calls = False
        self.kpoint_hook = None        # fn(callname, pid) -> None
        self.behaviour_for = None      # fn(kernel, proc_like_info) -> Behaviour
        self.popen_fault = None        # fn(kernel, attempt_no, info) -> exception or None
        self.popen_attempts = 0
        self.fd_snapshot = None        # fn() -> frozenset of inheritable fds
        self.foreign = {}              # pid -> alive? (for os.kill(pid, 0) in pidfile checks)
        self.blocking_waits = 0
        self.counters = {}
        self.stray_real_signals = []
        self.event_seq = 0             # global order of deaths and signal deliveries
        self.probe_preexec = False     # run preexec_fn in a real forked child and record the fd table it would exec with

    # ------------------------------------------------------------------
    def _count(self, k):
        self.counters[k] = self.counters.get(k, 0) + 1

    def kpoint(self, name, pid=None):
        self._count(name)
        if CLOCK.blocked is not None:
            from vt.clock import LoopBlocked
            raise LoopBlocked(CLOCK.blocked)
        if self.kpoint_hook is not None:
            self.kpoint_hook(name, pid)

    def new_pid(self):
        self.next_pid += 1
        return self.next_pid

    def at(self, delay, fn, label):
        self._seq += 1
        self.timers.append((CLOCK.now + delay, self._seq, fn, label))
        self.timers.sort(key=lambda x: (x[0], x[1]))

    def next_timer(self):
        return self.timers[0][0] if self.timers else None

    def fire_next_timer(self):
        t, _, fn, label = self.timers.pop(0)
        CLOCK.advance_to(t)
        fn()
        return label

    # ------------------------------------------------------------------
    def spawn_log_all(self):
        """Every process of the table (workers and their descendants) in pid order."""
        return [self.procs[k] for k in sorted(self.procs)]

    def running_workers(self):
        return [p for p in self.spawn_log if p.state == RUNNING and p.is_worker]

    def proc(self, pid):
        return self.procs.get(pid)

    def spawn_child_of(self, parent, behaviour):
        p = Proc(self.new_pid())
        p.parent = parent
        p.orig_parent = parent
        p.behaviour = behaviour
        p.role = 'child'
        p.watcher = parent.watcher
        parent.children.append(p)
        self.procs[p.pid] = p
        for cb in behaviour.children:
            self.spawn_child_of(p, cb)
        return p

    @_guard
    def die(self, pid, wstatus, cause='self'):
        """RUNNING -> ZOMBIE (or straight to gone for non-children of the daemon)."""
        p = self.procs[pid]
        if p.state != RUNNING:
            return False
        p.state = ZOMBIE
        p.wstatus = wstatus
        p.death_time = CLOCK.now
        p.death_cause = cause
        self.event_seq += 1
        p.death_seq = self.event_seq
        p.pending_death = False
        # children are re-parented to init: they leave children()
        for c in p.children:
            c.parent = None
        p.children = []
        for attr in ('out_w', 'err_w'):
            fd = getattr(p, attr)
            if fd is not None:
                try:
                    os.close(fd)
                except OSError:
                    pass
                setattr(p, attr, None)
        if not p.is_worker:
            # a descendant, not the daemon's child: its parent / init reaps it at once
            if p.parent is not None:
                try:
                    p.parent.children.remove(p)
                except ValueError:
                    pass
            p.state = REAPED
            p.reaped_by = 'init'
        return True

    def deliver(self, pid, sig, via):
        """A signal reaches a RUNNING process."""
        p = self.procs[pid]
        sig = int(sig)
        self.event_seq += 1
        p.signals.append((CLOCK.now, sig, via))
        self.signal_log.append((CLOCK.now, pid, sig, via))
        self.signal_seq.append(self.event_seq)
        if sig == 0 or p.state != RUNNING:
            return
        r = p.behaviour.reaction(sig)
        if r[0] == 'ignore':
            return
        if r[0] == 'die':
            delay, st = r[1], wstatus_signal(sig)
        else:
            delay, st = r[2], wstatus_exit(r[1])
        if delay <= 0:
            self.die(pid, st, cause='signal')
        elif not p.pending_death or sig == signal.SIGKILL:
            p.pending_death = True

            def _die(pid=pid, st=st, p=p):
                n = getattr(p.behaviour, 'last_words', 0)
                if n and p.state == RUNNING and p.out_w is not None:
                    data = (b'last words of %d;' % pid) * (n // 12 + 1)
                    data = data[:n]
                    os.write(p.out_w, data)
                    p.said = (getattr(p, 'said', None) or b'') + data
                self.die(pid, st, cause='signal')
            self.at(delay, _die, ('death', pid))

    # --- os.kill / os.waitpid ----------------------------------------------
    @_guard
    def kill(self, pid, sig):
        if pid in self.foreign:
            if not self.foreign[pid]:
                raise ProcessLookupError(errno.ESRCH, 'No such process')
            return
        p = self.procs.get(pid)
        if p is None or p.state == REAPED:
            raise ProcessLookupError(errno.ESRCH, 'No such process')
        self.deliver(pid, sig, 'os.kill')

    def _reap(self, p, by):
        p.state = REAPED
        p.reaped_by = by
        return p.pid, p.wstatus

    @_guard
    def waitpid(self, pid, options):
        self.kpoint('waitpid' if pid != -1 else 'waitpid(-1)', pid)
        nohang = bool(options & os.WNOHANG)
        if pid == -1:
            kids = [self.procs[c] for c in self.daemon_children
                    if self.procs[c].state != REAPED]
            if not kids:
                raise ChildProcessError(errno.ECHILD, 'No child processes')
            for p in kids:
                if p.state == ZOMBIE:
                    return self._reap(p, 'waitpid(-1)')
            if nohang:
                return (0, 0)
            self.blocking_waits += 1
            CLOCK.block('blocking waitpid(-1) with running children')
        p = self.procs.get(pid)
        if p is None or p.state == REAPED or not p.is_worker:
            raise ChildProcessError(errno.ECHILD, 'No child processes')
        if p.state == ZOMBIE:
            return self._reap(p, 'waitpid(pid)')
        if nohang:
            return (0, 0)
        self.blocking_waits += 1
        CLOCK.block('blocking waitpid(%d) on a running process' % pid)

    # --- Popen ----------------------------------------------------------
    @_guard
    def Popen(self, args, cwd=None, shell=False, preexec_fn=None, env=None, close_fds=True,
              executable=None, stdout=None, stderr=None, stdin=None, **kw):
        self.popen_attempts += 1
        info = _caller_info()
        self.kpoint('Popen', None)
        if self.popen_fault is not None:
            exc = self.popen_fault(self, self.popen_attempts, info)
            if exc is not None:
                exc._vt_injected = True
                raise exc
        p = Proc(self.new_pid())
        p.is_worker = True
        p.role = 'worker'
        p.argv = list(args) if not isinstance(args, str) else args
        p.env = None if env is None else dict(env)
        p.cwd = cwd
        p.close_fds = close_fds
        p.pass_fds = tuple(kw.get('pass_fds') or ())
        p.shell = shell
        p.executable = executable
        p.watcher = info.get('watcher')
        p.wid = info.get('wid')
        if self.fd_snapshot is not None:
            p.inherit_fds = self.fd_snapshot()
        if self.probe_preexec and preexec_fn is not None:
            p.child_fds = probe_child_fds(preexec_fn, close_fds, p.pass_fds)
        self.procs[p.pid] = p
        self.daemon_children.append(p.pid)
        self.spawn_log.append(p)
        if self.behaviour_for is not None:
            p.behaviour = self.behaviour_for(self, p) or OBEDIENT
        for cb in p.behaviour.children:
            self.spawn_child_of(p, cb)
        pop = SimPopen(self, p)
        if stdout == -1:
            r, w = os.pipe()
            p.out_w = w
            pop.stdout = os.fdopen(r, 'rb', 0)
        if stderr == -1:
            r, w = os.pipe()
            p.err_w = w
            pop.stderr = os.fdopen(r, 'rb', 0)
        p.popen = pop
        return pop

    # --- bookkeeping for oracles ----------------------------------------
    def snapshot(self):
        return [(p.pid, p.watcher, p.state) for p in self.spawn_log]

    def close_all(self):
        for p in self.procs.values():
            for attr in ('out_w', 'err_w'):
                fd = getattr(p, attr)
                if fd is not None:
                    try:
                        os.close(fd)
                    except OSError:
                        pass
                    setattr(p, attr, None)
            if p.popen is not None:
                for f in (p.popen.stdout, p.popen.stderr):
                    if f is not None:
                        try:
                            f.close()
                        except OSError:
                            pass


def probe_child_fds(preexec_fn, close_fds, pass_fds):
    """What a real child would see after fork + preexec_fn + the close_fds / CLOEXEC rules of exec: a REAL fork of this
    process runs preexec_fn and reports {fd: [st_dev, st_ino, is_socket, listening]} for every descriptor that would
    survive into the exec'd program."""
    import json
    import socket as _socket
    import stat as _stat
    r, w = os.pipe()
    pid = os.fork()
    if pid == 0:
        code = 0
        try:
            os.close(r)
            preexec_fn()
            out = {}
            for name in os.listdir('/proc/self/fd'):
                try:
                    fd = int(name)
                    if fd == w:
                        continue
                    st = os.fstat(fd)
                    inh = os.get_inheritable(fd)
                except (ValueError, OSError):
                    continue
                if not (fd < 3 or fd in pass_fds or (not close_fds and inh)):
                    continue
                issock = _stat.S_ISSOCK(st.st_mode)
                listening = False
                if issock:
                    try:
                        sk = _socket.socket(fileno=os.dup(fd))
                        listening = sk.getsockopt(_socket.SOL_SOCKET, _socket.SO_ACCEPTCONN) == 1
                        sk.close()
                    except OSError:
                        pass
                out[fd] = [st.st_dev, st.st_ino, issock, listening]
            os.write(w, json.dumps(out).encode())
        except BaseException as e:      # noqa
            try:
                os.write(w, json.dumps({'error': repr(e)}).encode())
            except Exception:
                pass
            code = 1
        finally:
            os._exit(code)
    os.close(w)
    chunks = []
    while True:
        b = os.read(r, 65536)
        if not b:
            break
        chunks.append(b)
    os.close(r)
    try:
        from vt.world import _real_waitpid
        _real_waitpid(pid, 0)
    except Exception:
        pass
    try:
        data = json.loads(b''.join(chunks).decode() or '{}')
    except ValueError:
        data = {'error': 'unreadable probe output'}
    if 'error' in data:
        return data
    return {int(k): v for k, v in data.items()}


def _caller_info():
    """Attribute a Popen call to the circus Process / Watcher that made it."""
    f = sys._getframe(2)
    for _ in range(6):
        if f is None:
            break
        s = f.f_locals.get('self')
        if s is not None and hasattr(s, 'wid') and hasattr(s, 'watcher'):
            w = s.watcher
            return {'watcher': getattr(w, 'name', None), 'wid': s.wid, 'process': s}
        f = f.f_back
    return {}


@_guard_class
class SimPopen(object):
    """psutil.Popen as circus uses it."""

    def __init__(self, kernel, proc):
        self._k = kernel
        self._p = proc
        self.pid = proc.pid
        self.returncode = None
        self.stdout = None
        self.stderr = None
        self.stdin = None
        self._gone = False

    def __repr__(self):
        return 'SimPopen(pid=%d,%s)' % (self.pid, self._p.state)

    # subprocess side
    def poll(self):
        self._k.kpoint('poll', self.pid)
        if self.returncode is not None:
            return self.returncode
        p = self._p
        if p.state == RUNNING:
            return None
        if p.state == ZOMBIE:
            self._k._reap(p, 'poll')
            self.returncode = _returncode(p.wstatus)
            return self.returncode
        # reaped by someone else: CPython's ECHILD rule
        self.returncode = 0
        return 0

    def wait(self, timeout=None):
        self._k.kpoint('wait', self.pid)
        if self.returncode is not None:
            return self.returncode
        p = self._p
        if p.state == RUNNING:
            if timeout is None:
                self._k.blocking_waits += 1
                CLOCK.block('blocking wait() on a running process')
            import time
            time.sleep(timeout)
            if p.state == RUNNING:
                raise psutil.TimeoutExpired(timeout, pid=self.pid)
        if p.state == ZOMBIE:
            self._k._reap(p, 'wait')
            self.returncode = _returncode(p.wstatus)
            return self.returncode
        # already reaped by someone else: psutil cannot know the status
        self.returncode = None
        return None

    # psutil side
    def _gone_check(self):
        if self._p.state == REAPED:
            self._gone = True
            raise psutil.NoSuchProcess(self.pid)

    def send_signal(self, sig):
        self._k.kpoint('send_signal', self.pid)
        self._gone_check()
        if not (0 <= int(sig) <= 64):
            raise OSError(errno.EINVAL, 'Invalid argument')
        self._k.deliver(self.pid, sig, 'send_signal')

    def terminate(self):
        self._k.kpoint('terminate', self.pid)
        self._gone_check()
        self._k.deliver(self.pid, signal.SIGTERM, 'terminate')

    def kill(self):
        self._k.kpoint('kill', self.pid)
        self._gone_check()
        self._k.deliver(self.pid, signal.SIGKILL, 'kill')

    def status(self):
        self._k.kpoint('status', self.pid)
        self._gone_check()
        return 'zombie' if self._p.state == ZOMBIE else 'sleeping'

    def is_running(self):
        self._k.kpoint('is_running', self.pid)
        if self._gone:
            return False
        if self._p.state == REAPED:
            self._gone = True
            return False
        return True

    def children(self, recursive=False):
        self._k.kpoint('children', self.pid)
        self._gone_check()
        out = []

        def walk(p):
            for c in p.children:
                if c.state != REAPED:
                    out.append(SimChild(self._k, c))
                    if recursive:
                        walk(c)
        walk(self._p)
        return out

    # informational (stats command)
    def name(self):
        self._gone_check()
        return 'simworker'

    def cmdline(self):
        self._gone_check()
        if self._p.state == ZOMBIE:
            return []
        a = self._p.argv
        return list(a) if not isinstance(a, str) else [a]

    def username(self):
        self._gone_check()
        return 'root'

    def nice(self):
        self._gone_check()
        return 0

    def memory_info(self):
        self._gone_check()
        return (1024 * 1024, 2048 * 1024)

    def memory_percent(self):
        self._gone_check()
        return 0.1

    def cpu_percent(self, interval=None):
        self._gone_check()
        return 0.0

    def cpu_times(self):
        self._gone_check()
        return (0.01, 0.01)

    def create_time(self):
        from vt.clock import EPOCH
        return EPOCH + self._p.spawn_time


@_guard_class
class SimChild(SimPopen):
    """psutil.Process of a descendant."""

    def poll(self):
        raise AttributeError('poll')


def _returncode(wstatus):
    if os.WIFSIGNALED(wstatus):
        return -os.WTERMSIG(wstatus)
    return os.WEXITSTATUS(wstatus)

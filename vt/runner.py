"""Runs a property check: distributes exploration over a process pool, collects
statistics, confirms and reports violations, writes evidence."""
import hashlib
import importlib
import json
import multiprocessing as mp
import os
import sys
import time
import traceback

from vt import explorer as X
from vt import findings as F

perf = time.perf_counter
VERIF = os.path.dirname(os.path.dirname(os.path.abspath(__file__)))
NPROC = max(1, min(16, os.cpu_count() or 1))
MAX_EXEC_PER_ITEM = 400


class Scenario(object):
    def __init__(self, name, **params):
        self.name = name
        self.p = params

    def __getattr__(self, k):
        try:
            return self.__dict__['p'][k]
        except KeyError:
            raise AttributeError(k)

    def __getstate__(self):
        return self.__dict__

    def __setstate__(self, d):
        self.__dict__.update(d)

    def describe(self):
        return {'name': self.name, 'params': {k: _plain(v) for k, v in sorted(self.p.items())}}

    def __repr__(self):
        return '%s(%s)' % (self.name, ','.join('%s=%s' % (k, _plain(v)) for k, v in sorted(self.p.items())))


def _plain(v):
    if isinstance(v, (int, float, str, bool, type(None))):
        return v
    if isinstance(v, (list, tuple)):
        return [_plain(x) for x in v]
    if isinstance(v, dict):
        return {str(k): _plain(x) for k, x in v.items()}
    return repr(v)


# ---------------------------------------------------------------------------
def scenarios_of(mod, tier):
    """mod.scenarios(tier), optionally narrowed by VERIF_ONLY=<regex on the scenario description> (a debugging aid: the run
    says so and its evidence goes to a scratch directory, never to /verif/evidence)."""
    scns = mod.scenarios(tier)
    only = os.environ.get('VERIF_ONLY')
    if only:
        import re
        scns = [s for s in scns if re.search(only, json.dumps(s.describe(), sort_keys=True))]
    return scns


EXEC_WALL_LIMIT = 5          # seconds of wall time for ONE execution (they take milliseconds)
_HANGS = {}                   # scenario description -> real blocking calls seen by this worker process

# worker side
_MOD = None
_SCN = None


def _init_worker(modname, tier):
    global _MOD, _SCN
    sys.setrecursionlimit(10000)
    _MOD = importlib.import_module(modname)
    _SCN = scenarios_of(_MOD, tier)


def _safe_run(scn):
    mod = _MOD

    def run(ch):
        from vt.watchdog import limit, Hang
        key = json.dumps(scn.describe(), sort_keys=True, default=repr)
        if _HANGS.get(key, 0) >= 2:
            # this scenario has already shown (twice, in this worker) that the daemon blocks for real: its remaining
            # executions are not worth 10 s of wall time each; the violation is on record
            res = X.Result()
            res.aborted = 'skipped: the scenario already blocked for real'
            return res
        try:
            with limit(EXEC_WALL_LIMIT):
                return mod.run(scn, ch)
        except X.ReplayDivergence:
            raise
        except Hang as h:
            # the code under test made a real blocking call (the virtual clock cannot see it): for the daemon this is an
            # event loop that stands still - reported as a violation of its own
            import vt.world as VW
            _HANGS[key] = _HANGS.get(key, 0) + 1
            res = X.Result()
            res.check('HARNESS.real_blocking_call', False,
                      'the execution did not return within %ds of wall time: a real blocking system call inside the daemon code at %s'
                      % (EXEC_WALL_LIMIT, h.where), where='blocked-for-real@' + (h.where.split(' <- ')[0] if h.where else '?'))
            res.aborted = 'real blocking call'
            try:
                if VW.CURRENT is not None:
                    VW.CURRENT.close()
            except BaseException:
                pass
            return res
    return run


def _w_default(arg):
    """Default continuation of a prefix, twice: returns points and a determinism verdict."""
    if isinstance(arg, tuple):
        idx, prefix, expect, ctx = arg
    else:
        idx, prefix, expect, ctx = arg, [], None, None
    scn = _SCN[idx]
    run = _safe_run(scn)
    outs = []
    nodet = bool(scn.p.get('nodet'))
    for _ in range(1 if nodet else 2):
        ch = X.Chooser(prefix, expect, ctx)
        res = run(ch)
        outs.append((ch.choices, [p[0] for p in ch.points], res.outcome, sorted(res.states),
                     res.aborted, res.violations))
    same = nodet or (json.dumps(outs[0], default=repr, sort_keys=True) ==
                     json.dumps(outs[1], default=repr, sort_keys=True))
    return idx, [(p[0], p[1], p[2]) for p in ch.points], same, list(ch.choices), ch.cost


def _w_item(item):
    idx, prefix, expect, bound, deadline_wall, ctx, min_point = item[:7]
    stack = item[7] if len(item) > 7 else None
    scn = _SCN[idx]
    st = X.Stats()
    try:
        dl = None
        if deadline_wall is not None:
            from vt.clock import _real_time
            dl = perf() + max(0.0, deadline_wall - _real_time())
        X.explore(_safe_run(scn), bound, prefix=prefix, expect=expect, stats=st, deadline=dl,
                  scenario=scn.describe(), ctx=ctx, min_point=min_point, max_exec=MAX_EXEC_PER_ITEM,
                  initial_stack=stack)
    except X.ReplayDivergence as e:
        st.violations.append({'clause': 'HARNESS.nondeterminism', 'detail': str(e), 'where': 'harness',
                              'scenario': scn.describe(), 'choices': list(prefix), 'labels': [],
                              'deviations': []})
    except Exception:
        st.violations.append({'clause': 'HARNESS.crash', 'detail': traceback.format_exc()[-1500:],
                              'where': 'harness', 'scenario': scn.describe(), 'choices': list(prefix),
                              'labels': [], 'deviations': []})
    st.outcomes = set(list(st.outcomes)[:5000])
    if st.leftover:
        # split the unexplored rest in two halves and give them back
        rest = st.leftover
        half = max(1, len(rest) // 2)
        st.leftover = [(idx, prefix, expect, bound, deadline_wall, ctx, min_point, part)
                       for part in (rest[:half], rest[half:]) if part]
    return idx, st


def _w_replay(args):
    idx, choices, ctx = args
    scn = _SCN[idx]
    ch = X.Chooser(choices, None, ctx)
    res = _safe_run(scn)(ch)
    return [(c, d, w) for (c, d, w) in res.violations], res.aborted, ch.chosen_labels(), res.info.get('trace')


# ---------------------------------------------------------------------------
def make_pool(modname, tier, nproc=None):
    ctx = mp.get_context('fork')
    return ctx.Pool(nproc or NPROC, initializer=_init_worker, initargs=(modname, tier))


def _items_for(idx, points, choices, first, bound, deadline_wall, ctx):
    """One work item per (point >= first, alternative) of a default continuation."""
    items = []
    labels = [p[0] for p in points]
    base_cost = cost_of(points, choices, first)
    for i in range(first, len(points)):
        label, n, costs = points[i]
        for alt in range(1, n):
            if base_cost + costs[alt] > bound:
                continue
            items.append((idx, list(choices[:i]) + [alt], labels[:i + 1], bound, deadline_wall, ctx, i + 1))
    return items


def _drain_items(pool, items, on_result):
    """Run work items; an item that turns out to be large hands part of its subtree back, which is queued again."""
    import collections
    pending = collections.deque()
    queue = collections.deque(items)
    inflight = 0
    LIMIT = NPROC * 3
    while queue or pending:
        while queue and len(pending) < LIMIT:
            pending.append(pool.apply_async(_w_item, (queue.popleft(),)))
        r = pending.popleft()
        idx, st = r.get()
        for extra in st.leftover:
            queue.append(extra)
        st.leftover = []
        on_result(idx, st)


def run_explorer_property(mod, tier, seed, budget_s):
    """Generic driver for explorer-based properties.  Returns (stats, meta, scenarios).

    Plain mode: every scenario is explored from its start with the scenario's deviation bound.
    Graph mode (mod.GRAPH = generations per tier): breadth-first search over quiescent daemon states.
    A state is the choice list (history) that reaches it; each generation explores, from every *new*
    canonical state, all bursts of <= bound deviations, and canonical digests deduplicate the frontier."""
    t0 = perf()
    modname = mod.__name__
    scns = scenarios_of(mod, tier)
    meta = {'scenarios': len(scns), 'nondeterministic_scenarios': []}
    deadline_wall = time.time() + budget_s
    total = X.Stats()
    gens = getattr(mod, 'GRAPH', {}).get(tier, 0)
    with make_pool(modname, tier) as pool:
        if not gens:
            defaults = pool.map(_w_default, range(len(scns)), chunksize=1)
            items = []
            for idx, points, same, choices, cost in defaults:
                if not same:
                    meta['nondeterministic_scenarios'].append(scns[idx].describe())
                bound = mod.bound(tier, scns[idx])
                items.append((idx, [], None, 0, deadline_wall, None, None))
                items += _items_for(idx, points, choices, 0, bound, deadline_wall, None)
            if items:
                k = seed % len(items)
                items = items[k:] + items[:k]
            meta['work_items'] = len(items)
            _drain_items(pool, items, lambda idx, st: total.merge(st))
        else:
            seen = {}                      # (scenario idx, digest) -> generation discovered
            frontier = [(idx, [], None) for idx in range(len(scns))]
            per_gen = []
            for g in range(1, gens + 1):
                ctx = {'gens': g}
                if time.time() > deadline_wall:
                    total.capped = 'time (before generation %d)' % g
                    break
                defaults = pool.map(_w_default, [(idx, pre, exp, ctx) for (idx, pre, exp) in frontier],
                                    chunksize=1)
                items = []
                for (idx, pre, exp), (_, points, same, choices, cost) in zip(frontier, defaults):
                    if not same:
                        meta['nondeterministic_scenarios'].append(scns[idx].describe())
                    bound = cost_of(points, choices, len(pre)) + mod.bound(tier, scns[idx], g)
                    # the default continuation itself (no deviation in this generation)
                    items.append((idx, list(pre), exp, 0, deadline_wall, ctx, None))
                    items += _items_for(idx, points, choices, len(pre), bound, deadline_wall, ctx)
                if items:
                    k = seed % len(items)
                    items = items[k:] + items[:k]
                new_states = {}
                gen_stats = X.Stats()
                def on_result(idx, st):
                    for dg, hist in st.finals.items():
                        key = (idx, dg)
                        if key not in seen and key not in new_states:
                            new_states[key] = hist
                        elif key in new_states and len(hist[0]) < len(new_states[key][0]):
                            new_states[key] = hist
                    st.finals = {}
                    gen_stats.merge(st)
                _drain_items(pool, items, on_result)
                total.merge(gen_stats)
                for key in new_states:
                    seen[key] = g
                per_gen.append({'generation': g, 'frontier_states': len(frontier), 'work_items': len(items),
                                'executions': gen_stats.executions, 'new_states': len(new_states)})
                # deterministic order of the next frontier
                frontier = [(key[0], hist[0], hist[1]) for key, hist in sorted(new_states.items())]
                if gen_stats.capped:
                    break
                if not frontier:
                    break
            total.states = set('%d:%s' % k for k in seen)
            meta['generations'] = per_gen
            meta['graph_closed'] = bool(per_gen) and per_gen[-1]['new_states'] == 0
    meta['wall_explore_s'] = round(perf() - t0, 2)
    return total, meta, scns


def cost_of(points, choices, upto):
    return sum(points[i][2][choices[i]] for i in range(min(upto, len(points))))


def confirm_and_report(mod, tier, stats, scns, prop_id):
    """Deduplicate violations, replay each candidate twice, match known findings,
    write replay files.  Returns (n_new_violations, known_hits, lines)."""
    by_key = {}
    name_to_idx = {json.dumps(s.describe(), sort_keys=True): i for i, s in enumerate(scns)}
    for v in stats.violations:
        key = (v['clause'], v.get('where'), F.fingerprint(v))
        cur = by_key.get(key)
        if cur is None or len(v['deviations']) < len(cur['deviations']) or \
                (len(v['deviations']) == len(cur['deviations']) and len(v['choices']) < len(cur['choices'])):
            by_key[key] = v
    cands = list(by_key.values())
    cands.sort(key=lambda v: (len(v['deviations']), v['clause'], len(v['choices'])))
    lines = []
    new = 0
    known_hits = {}
    known = F.load_known()
    if not cands:
        return 0, known_hits, lines
    rest = []
    for v in cands:
        k = None if v['clause'].startswith('HARNESS.') else F.match_known(known, prop_id, v)
        if k is not None:
            known_hits[k['id']] = (k, known_hits.get(k['id'], (k, 0))[1] + 1)
        else:
            rest.append(v)
    if not rest:
        for kid, (k, n) in sorted(known_hits.items()):
            lines.append('KNOWN-FINDING: property=%s %s [%s; %d distinct witnesses this run]'
                         % (prop_id, k['summary'], kid, n))
        return 0, known_hits, lines
    # one witness per (clause, where) first, so that every distinct failure kind gets replayed and reported
    seen_kind, ordered, later = set(), [], []
    for v in rest:
        kind = (v['clause'], v.get('where'))
        if kind not in seen_kind:
            seen_kind.add(kind)
            ordered.append(v)
        else:
            later.append(v)
    ordered += later
    CAP = 30
    with make_pool(mod.__name__, tier, nproc=min(NPROC, max(1, min(len(ordered), CAP)))) as pool:
        for v in ordered[:CAP]:
            if v['clause'].startswith('HARNESS.'):
                path = F.write_replay(prop_id, v)
                lines.append('VIOLATION property=%s replay=%s' % (prop_id, path))
                lines.append('  %s: %s' % ('the daemon code blocked for real' if v['clause'] == 'HARNESS.real_blocking_call'
                                           else 'harness error', v['detail'][:500]))
                lines.append('  scenario=%s deviations=%s' % (v.get('scenario'), v.get('deviations')))
                new += 1
                continue
            idx = name_to_idx.get(json.dumps(v['scenario'], sort_keys=True))
            r1 = pool.apply(_w_replay, ((idx, v['choices'], v.get('ctx')),))
            r2 = pool.apply(_w_replay, ((idx, v['choices'], v.get('ctx')),))
            c1 = sorted(set(c for c, d, w in r1[0]))
            c2 = sorted(set(c for c, d, w in r2[0]))
            if c1 != c2 or v['clause'] not in c1:
                path = F.write_replay(prop_id, dict(v, clause='HARNESS.unstable_replay'))
                lines.append('VIOLATION property=%s replay=%s' % (prop_id, path))
                lines.append('  replay of %s was not stable (%s vs %s): harness nondeterminism'
                             % (v['clause'], c1, c2))
                new += 1
                continue
            v['trace'] = r1[3]
            path = F.write_replay(prop_id, v)
            lines.append('VIOLATION property=%s replay=%s' % (prop_id, path))
            lines.append('  clause=%s where=%s scenario=%s' % (v['clause'], v.get('where'), v['scenario']))
            lines.append('  deviations=%s' % v['deviations'])
            lines.append('  detail=%s' % str(v['detail'])[:600])
            new += 1
    if len(ordered) > CAP:
        new += len(ordered) - CAP
        lines.append('  (+%d further failing scenarios of the same kinds not replayed individually)' % (len(ordered) - CAP))
    for kid, (k, n) in sorted(known_hits.items()):
        lines.append('KNOWN-FINDING: property=%s %s [%s; %d distinct witnesses this run]'
                     % (prop_id, k['summary'], kid, n))
    return new, known_hits, lines


def replay_file(mod, path, tier='quick'):
    from vt import world  # noqa
    with open(path) as f:
        v = json.load(f)
    scns = scenarios_of(mod, v.get('tier', tier))
    want = json.dumps(v['scenario'], sort_keys=True)
    scn = None
    for t in (v.get('tier', tier), 'thorough', 'quick'):
        for s in scenarios_of(mod, t):
            if json.dumps(s.describe(), sort_keys=True) == want:
                scn = s
                break
        if scn is not None:
            break
    if scn is None:
        print('scenario of the replay file not found in this version of the check')
        return 2
    fails = []
    for _ in range(2):
        ch = X.Chooser(v['choices'], None, v.get('ctx'))
        res = mod.run(scn, ch)
        fails.append(sorted(set(c for c, d, w in res.violations)))
        last = res
    print('scenario: %s' % (scn,))
    print('deviations: %s' % ch.chosen_labels())
    for c, d, w in last.violations:
        print('FAILED %s at %s: %s' % (c, w, d))
    if last.info.get('trace'):
        print('--- trace')
        for line in last.info['trace']:
            print('   ', line)
    if fails[0] != fails[1]:
        print('replay unstable: %s vs %s' % (fails[0], fails[1]))
        return 2
    if v['clause'] in fails[0]:
        print('VIOLATION property=%s replay=%s' % (v['property'], path))
        return 1
    print('clause %s holds on this tree for this history' % v['clause'])
    return 0

"""Conformance of the environment model (vt/simkernel.py) with the real kernel + psutil.

The matrix  process condition x call  is executed on SimKernel and on real psutil.Popen children (a helper worker
script; state changes are awaited by reading /proc/<pid>/stat, never by sleeping blindly) and the observable
results (value or exception type) must agree.  Run in a dedicated subprocess: it waits on real children.
"""
import errno
import json
import os
import signal
import subprocess
import sys
import tempfile
import time

HERE = os.path.dirname(os.path.dirname(os.path.abspath(__file__)))
WORKER = os.path.join(HERE, 'conformance', 'worker.py')

CONDITIONS = ['running-obedient', 'running-stubborn', 'running-with-child', 'zombie-by-signal', 'zombie-by-exit',
              'reaped-by-waitpid', 'reaped-by-waitpid-any', 'reaped-by-poll']
CALLS = ['poll', 'returncode', 'send_signal_TERM', 'send_signal_KILL', 'send_signal_0', 'terminate', 'status',
         'is_running', 'children', 'children_recursive', 'waitpid', 'waitpid_any', 'wait0']


def _state(pid):
    try:
        with open('/proc/%d/stat' % pid) as f:
            return f.read().rsplit(')', 1)[1].split()[0]
    except OSError:
        return None


def _await(pred, what, timeout=5.0):
    t0 = time.monotonic()
    while not pred():
        if time.monotonic() - t0 > timeout:
            raise RuntimeError('timeout waiting for ' + what)
        time.sleep(0.002)


def _norm(call, fn):
    try:
        v = fn()
    except BaseException as e:      # noqa
        return 'raise:' + type(e).__name__
    return v


# ---------------------------------------------------------------- real side
class Real(object):
    def __init__(self, cond, scratch):
        import psutil
        self.psutil = psutil
        mode = {'running-stubborn': 'stubborn', 'running-with-child': 'child', 'zombie-by-exit': 'exit3'}.get(cond, 'obedient')
        ready = os.path.join(scratch, 'ready-%d-%f' % (os.getpid(), time.monotonic()))
        self.p = psutil.Popen([sys.executable, '-S', WORKER, mode, ready], close_fds=True,
                              stdin=subprocess.DEVNULL, stdout=subprocess.DEVNULL, stderr=subprocess.DEVNULL)
        self.kids = []
        _await(lambda: os.path.exists(ready), 'worker ready')
        os.unlink(ready)
        pid = self.p.pid
        if cond == 'running-with-child':
            _await(lambda: len(self.p.children()) == 1, 'child')
            self.kids = self.p.children(recursive=True)
        if cond in ('zombie-by-signal', 'reaped-by-waitpid', 'reaped-by-waitpid-any', 'reaped-by-poll'):
            os.kill(pid, signal.SIGKILL)
            _await(lambda: _state(pid) == 'Z', 'zombie')
        if cond == 'zombie-by-exit':
            os.kill(pid, signal.SIGUSR1)
            _await(lambda: _state(pid) == 'Z', 'zombie')
        if cond == 'reaped-by-waitpid':
            os.waitpid(pid, 0)
        elif cond == 'reaped-by-waitpid-any':
            os.waitpid(-1, 0)
        elif cond == 'reaped-by-poll':
            self.p.poll()

    def call(self, name):
        p, pid = self.p, self.p.pid
        if name == 'poll':
            return p.poll()
        if name == 'returncode':
            return p.returncode
        if name == 'send_signal_TERM':
            r = p.send_signal(signal.SIGTERM)
            self._settle()
            return r
        if name == 'send_signal_KILL':
            r = p.send_signal(signal.SIGKILL)
            self._settle(kill=True)
            return r
        if name == 'send_signal_0':
            return p.send_signal(0)
        if name == 'terminate':
            r = p.terminate()
            self._settle()
            return r
        if name == 'status':
            return 'zombie' if p.status() == 'zombie' else 'alive'
        if name == 'is_running':
            return p.is_running()
        if name == 'children':
            return len(p.children())
        if name == 'children_recursive':
            return len(p.children(recursive=True))
        if name == 'waitpid':
            rp, st = os.waitpid(pid, os.WNOHANG)
            return [rp == pid, st]
        if name == 'waitpid_any':
            rp, st = os.waitpid(-1, os.WNOHANG)
            return [rp == pid, st]
        if name == 'wait0':
            return p.wait(0)
        raise ValueError(name)

    def _settle(self, kill=False):
        """Wait until the signal's effect (if any) is visible: the model delivers signals instantly."""
        pid = self.p.pid
        t0 = time.monotonic()
        while time.monotonic() - t0 < (1.0 if kill else 0.15):
            st = _state(pid)
            if st in ('Z', None):
                return
            if not kill and self.mode_ignores():
                return
            time.sleep(0.002)

    def mode_ignores(self):
        return getattr(self, '_stubborn', False)

    def close(self):
        pid = self.p.pid
        for c in self.kids:
            try:
                c.kill()
            except Exception:
                pass
        try:
            for c in self.psutil.Process(pid).children(recursive=True):
                try:
                    c.kill()
                except Exception:
                    pass
        except Exception:
            pass
        try:
            os.kill(pid, signal.SIGKILL)
        except OSError:
            pass
        try:
            os.waitpid(pid, 0)
        except OSError:
            pass
        while True:
            try:
                rp, _ = os.waitpid(-1, os.WNOHANG)
                if not rp:
                    break
            except OSError:
                break


# ----------------------------------------------------------------- sim side
class Sim(object):
    def __init__(self, cond):
        from vt.simkernel import SimKernel, Behaviour, OBEDIENT, wstatus_exit, wstatus_signal
        self.k = SimKernel()
        beh = OBEDIENT
        if cond == 'running-stubborn':
            beh = Behaviour('stubborn', {15: ('ignore',), 2: ('ignore',), 1: ('ignore',), 12: ('ignore',)})
        elif cond == 'running-with-child':
            beh = Behaviour('parent', {}, children=(OBEDIENT,))
        self.k.behaviour_for = lambda k, p: beh
        self.p = self.k.Popen(['worker'])
        pid = self.p.pid
        if cond in ('zombie-by-signal', 'reaped-by-waitpid', 'reaped-by-waitpid-any', 'reaped-by-poll'):
            self.k.die(pid, wstatus_signal(9))
        if cond == 'zombie-by-exit':
            self.k.die(pid, wstatus_exit(3))
        if cond == 'reaped-by-waitpid':
            self.k.waitpid(pid, 0)
        elif cond == 'reaped-by-waitpid-any':
            self.k.waitpid(-1, 0)
        elif cond == 'reaped-by-poll':
            self.p.poll()

    def call(self, name):
        p, pid, k = self.p, self.p.pid, self.k
        if name == 'poll':
            return p.poll()
        if name == 'returncode':
            return p.returncode
        if name == 'send_signal_TERM':
            return p.send_signal(signal.SIGTERM)
        if name == 'send_signal_KILL':
            return p.send_signal(signal.SIGKILL)
        if name == 'send_signal_0':
            return p.send_signal(0)
        if name == 'terminate':
            return p.terminate()
        if name == 'status':
            return 'zombie' if p.status() == 'zombie' else 'alive'
        if name == 'is_running':
            return p.is_running()
        if name == 'children':
            return len(p.children())
        if name == 'children_recursive':
            return len(p.children(recursive=True))
        if name == 'waitpid':
            rp, st = k.waitpid(pid, os.WNOHANG)
            return [rp == pid, st]
        if name == 'waitpid_any':
            rp, st = k.waitpid(-1, os.WNOHANG)
            return [rp == pid, st]
        if name == 'wait0':
            return p.wait(0)
        raise ValueError(name)


def run_matrix(pairs=False, conditions=None):
    """Returns {'cases': n, 'mismatches': [...], 'spawns': n}."""
    sys.path.insert(0, HERE)
    scratch = tempfile.mkdtemp(prefix='vt-conf-')
    out = {'cases': 0, 'mismatches': [], 'spawns': 0, 'table': {}}
    seqs = [[c] for c in CALLS]
    if pairs:
        seqs += [[a, b] for a in CALLS for b in CALLS]
    try:
        for cond in (conditions or CONDITIONS):
            for seq in seqs:
                real = Real(cond, scratch)
                real._stubborn = cond == 'running-stubborn'
                sim = Sim(cond)
                out['spawns'] += 1
                try:
                    rr = [_norm(c, lambda c=c: real.call(c)) for c in seq]
                    ss = [_norm(c, lambda c=c: sim.call(c)) for c in seq]
                finally:
                    real.close()
                out['cases'] += 1
                rr = json.loads(json.dumps(rr, default=repr))
                ss = json.loads(json.dumps(ss, default=repr))
                # psutil's ZombieProcess is a NoSuchProcess; TimeoutExpired identical by name
                rr = ['raise:NoSuchProcess' if x == 'raise:ZombieProcess' else x for x in rr]
                if len(seq) == 1:
                    out['table']['%s/%s' % (cond, seq[0])] = rr[0]
                if rr != ss:
                    out['mismatches'].append({'condition': cond, 'calls': seq, 'real': rr, 'sim': ss})
    finally:
        import shutil
        shutil.rmtree(scratch, ignore_errors=True)
    return out


if __name__ == '__main__':
    pairs = '--pairs' in sys.argv
    res = run_matrix(pairs=pairs)
    json.dump(res, sys.stdout)

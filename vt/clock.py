"""Process-wide virtual clock.

install() replaces time.time / time.sleep in *this* process (explorer workers
only).  Everything in circus and tornado that reads the wall clock then reads
the virtual one; time.sleep() advances it and is charged to the loop callback
that is currently running (C05's oracle).  The harness itself measures wall
time with time.perf_counter(), which is left alone.
"""
import time as _time

EPOCH = 1_000_000_000.0

_real_time = _time.time
_real_sleep = _time.sleep


class LoopBlocked(BaseException):
    """Raised (stickily) when one callback burns more virtual time than the
    budget through time.sleep / blocking waits."""


class Clock(object):
    def __init__(self):
        self.reset()

    def reset(self):
        self.now = 0.0               # seconds since EPOCH (monotonic, virtual)
        self.cb_sleep = 0.0          # virtual time slept inside the current callback
        self.max_cb_sleep = 0.0
        self.sleep_calls = 0
        self.budget = 0.05
        self.blocked = None          # sticky reason once the budget is exceeded
        self.blocked_where = None
        self.on_sleep = None         # world hook: the rest of the world moves on while the daemon sleeps

    # --- what circus / tornado see -------------------------------------
    def time(self):
        return EPOCH + self.now

    def sleep(self, secs):
        if self.blocked is not None:
            raise LoopBlocked(self.blocked)
        secs = float(secs)
        if secs < 0:
            raise ValueError("sleep length must be non-negative")
        self.sleep_calls += 1
        self.now += secs
        if self.on_sleep is not None:
            self.on_sleep()
        self.cb_sleep += secs
        if self.cb_sleep > self.max_cb_sleep:
            self.max_cb_sleep = self.cb_sleep
        if self.cb_sleep > self.budget:
            self.block("time.sleep: %.3fs slept inside one callback" % self.cb_sleep)

    def block(self, reason):
        if self.blocked is None:
            self.blocked = reason
            import traceback
            self.blocked_where = [
                "%s:%s" % (f.filename.rsplit('/', 1)[-1], f.name)
                for f in traceback.extract_stack()[:-2]
                if '/circus/' in f.filename and f.name not in ('_log', 'wrapper')][-5:]
        raise LoopBlocked(self.blocked)

    # --- harness side ---------------------------------------------------
    def begin_callback(self):
        self.cb_sleep = 0.0

    def advance_to(self, t):
        if t > self.now:
            self.now = t


CLOCK = Clock()
_installed = False


def install():
    global _installed
    if _installed:
        return
    _time.time = CLOCK.time
    _time.sleep = CLOCK.sleep
    _installed = True


def uninstall():
    global _installed
    _time.time = _real_time
    _time.sleep = _real_sleep
    _installed = False

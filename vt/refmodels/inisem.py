"""inisem -- what a circus ini file MEANS according to docs/source/for-ops/configuration.rst.

A small, boring reader: the standard library's configparser for the syntax, and the documented
rules for the semantics.  Nothing here is taken from circus/config.py or circus/util.py; every
rule below carries the sentence of the documentation it comes from.  Whatever the documentation
does not define raises `Undefined` (the check then does not compare that input at all).

Result of `read(path, environ)`:

    {'circus':   {option: typed value}            documented [circus] options, defaults filled in
     'watchers': {name: {'written': {option: typed value},   options present in the section
                         'defaults': {option: value},        documented defaults of absent options
                         'rlimits': {...}, 'stdout_stream': {...}, 'stderr_stream': {...},
                         'hooks': {hook: (callable name, ignore_errors)},
                         'free': {option: str},              options the documentation does not list
                         'env': {var: str}}}
     'sockets':  {name: {...}},  'plugins': {name: {...}},
     'raw': [(section, [(option, text)])]}      the file(s) as written, in order
"""
import configparser
import fnmatch
import glob
import os
import re
import signal

try:
    import resource
    INFINITY = resource.RLIM_INFINITY
except ImportError:            # pragma: no cover
    INFINITY = -1


class Undefined(Exception):
    """The documentation gives this input no meaning."""


NODEFAULT = '<no documented default>'
DISABLED = '<disabled>'

BOOL, INT, NUM, STR, IDENT, SIG = 'bool', 'int', 'number', 'str', 'id-or-name', 'signal'

# "watcher:NAME - as many sections as you want": option -> (documented type, documented default)
WATCHER_OPTIONS = {
    'cmd': (STR, NODEFAULT),                  # "The executable program to run."
    'args': (STR, NODEFAULT),                 # "Command-line arguments to pass to the program."
    'shell': (BOOL, False),                   # "(default: False)"
    'shell_args': (STR, None),                # "(default: None)"
    'working_dir': (STR, None),               # "(default: None)"
    'uid': (IDENT, None),                     # "The user id or name ... (The current uid is the default)."
    'gid': (IDENT, None),
    'copy_env': (BOOL, False),                # "(Default: False)"
    'copy_path': (BOOL, False),               # "(Default: False)"
    'warmup_delay': (NUM, NODEFAULT),         # "The delay (in seconds) between running processes."
    'autostart': (BOOL, True),                # "(Default: True)"
    'numprocesses': (INT, NODEFAULT),         # "The number of processes to run for this watcher."
    'stdin_socket': (STR, None),              # "(Default: None)"
    'close_child_stdin': (BOOL, True),        # "Defaults to True."
    'close_child_stdout': (BOOL, False),      # "Defaults to False."
    'close_child_stderr': (BOOL, False),      # "Defaults to False."
    'send_hup': (BOOL, False),                # "Defaults to False."
    'stop_signal': (SIG, int(signal.SIGTERM)),  # "Defaults to SIGTERM."
    'stop_children': (BOOL, False),           # "Defaults to False."
    'max_retry': (INT, 5),                    # "Defaults to 5."
    'graceful_timeout': (NUM, 30),            # "Defaults to 30s."
    'priority': (INT, 0),                     # "Defaults to 0."
    'singleton': (BOOL, False),               # "Defaults to False."
    'use_sockets': (BOOL, False),             # "Defaults to False."
    'max_age': (INT, DISABLED),               # "Defaults to being disabled."
    'max_age_variance': (INT, 30),            # "Defaults to 30 seconds."
    'on_demand': (BOOL, NODEFAULT),           # no default stated in configuration.rst
    'virtualenv': (STR, None),                # "Defaults to None."
    'virtualenv_py_ver': (STR, None),         # "Defaults to None."
    'respawn': (BOOL, True),                  # "(default: True)"
}

# "circus - single section"
CIRCUS_OPTIONS = {
    'endpoint': (STR, 'tcp://127.0.0.1:5555'),
    'endpoint_owner': (STR, None),
    'pubsub_endpoint': (STR, 'tcp://127.0.0.1:5556'),
    'statsd': (BOOL, False),
    'stats_endpoint': (STR, 'tcp://127.0.0.1:5557'),
    'check_delay': (NUM, 5),
    'warmup_delay': (INT, 0),                 # "Must be an int. (default: 0)"
    'httpd': (BOOL, False),
    'httpd_host': (STR, 'localhost'),
    'httpd_port': (INT, 8080),
    'debug': (BOOL, False),
    'debug_gc': (BOOL, False),
    'pidfile': (STR, NODEFAULT),
    'umask': ('octal', None),                 # "If not set, circusd will not attempt to modify umask."
    'loglevel': (STR, NODEFAULT),             # the INFO default is applied by the logger, not the file reader
    'logoutput': (STR, NODEFAULT),
    'loggerconfig': (STR, NODEFAULT),
}

# "socket:NAME - as many sections as you want".  Only the kinds are kept (to read a value once a
# reference in it is expanded): what a socket does with its options, their typing and their defaults
# are not part of the property, which is about what each WATCHER receives.
SOCKET_OPTIONS = {
    'host': (STR, NODEFAULT),
    'port': (INT, NODEFAULT),
    'family': (STR, NODEFAULT),
    'type': (STR, NODEFAULT),
    'interface': (STR, NODEFAULT),
    'path': (STR, NODEFAULT),
}

_REF = re.compile(r'\$\(circus\.env\.([A-Za-z0-9_]+)\)|\(\(circus\.env\.([A-Za-z0-9_]+)\)\)', re.I)
REFERENCE = _REF
_SHELLVAR = re.compile(r'\$([A-Za-z_][A-Za-z0-9_]*)')


# ---------------------------------------------------------------------------------------------
# values

def typed(kind, text):
    """The documented reading of an option value."""
    if kind == BOOL:
        # the documentation writes booleans as True / False / true / false
        low = text.lower()
        if low == 'true':
            return True
        if low == 'false':
            return False
        raise Undefined('boolean spelled %r' % text)
    if kind == INT:
        if not re.fullmatch(r'-?[0-9]+', text):
            raise Undefined('integer spelled %r' % text)
        return int(text)
    if kind == NUM:
        if not re.fullmatch(r'[0-9]+(\.[0-9]+)?', text):
            raise Undefined('number spelled %r' % text)
        return float(text) if '.' in text else int(text)
    if kind == 'octal':
        if not re.fullmatch(r'[0-7]+', text):
            raise Undefined('umask spelled %r' % text)
        return int(text, 8)
    if kind == SIG:
        # "Can be specified as a number or a signal name. Signal names are case-insensitive and
        #  can include 'SIG' or not. So valid examples include `quit`, `INT`, `SIGTERM` and `3`."
        if re.fullmatch(r'[0-9]+', text):
            return int(text)
        name = text.upper()
        if not name.startswith('SIG'):
            name = 'SIG' + name
        if re.fullmatch(r'SIG[A-Z0-9]+', name) and name in signal.Signals.__members__:
            return int(signal.Signals[name])
        raise Undefined('signal spelled %r' % text)
    if kind in (STR, IDENT):
        return text
    raise AssertionError(kind)


class Layers(object):
    """Where a variable's value comes from, most specialised first.

    "If a variable is defined in several places, the most specialized value has precedence: a
     variable defined in *env:XXX* will override a variable defined in *env*, which will override
     a variable defined in *os.environ*."
    """

    def __init__(self, *mappings):
        self.mappings = mappings          # most specialised first

    def lookup(self, name):
        """Case-insensitive ("The replacement is case insensitive.")."""
        for m in self.mappings:
            hits = [k for k in m if k.lower() == name.lower()]
            if len(hits) > 1:
                raise Undefined('variables %r differ only by case' % hits)
            if hits:
                return m[hits[0]]
        return None


def expand(text, layers):
    """$(circus.env.X) / ((circus.env.X)) -> the value of X.  Anything else is left alone
    (circus.wid, circus.sockets.* are resolved when a process is spawned, not here)."""
    def repl(m):
        name = m.group(1) or m.group(2)
        val = layers.lookup(name)
        if val is None:
            raise Undefined('reference to undefined variable %r' % name)
        if _REF.search(val):
            raise Undefined('reference to a value that itself holds a reference')
        return val
    return _REF.sub(repl, text)


def has_reference(text):
    return bool(_REF.search(text or ''))


def shell_style(value, environ):
    """"bash style environment substitutions are supported. for example, append /bin to `PATH`
    'PATH = $PATH:/bin'" ... "(expanded from the environment circusd was run in)"."""
    return _SHELLVAR.sub(lambda m: environ.get(m.group(1), ''), value)


# ---------------------------------------------------------------------------------------------
# syntax: plain configparser

def _parse(path):
    cp = configparser.RawConfigParser(strict=True, interpolation=None, delimiters=('=',),
                                      comment_prefixes=('#', ';'), inline_comment_prefixes=None,
                                      empty_lines_in_values=False, default_section='<none>')
    cp.optionxform = str          # environment variable names are case sensitive
    try:
        with open(path) as f:
            cp.read_file(f)
    except (configparser.DuplicateSectionError, configparser.DuplicateOptionError) as e:
        raise Undefined('duplicate: %s' % e)
    out = []
    for s in cp.sections():
        items = []
        for k, v in cp.items(s, raw=True):
            if v is None or '\n' in v:
                raise Undefined('valueless or multi-line option')
            items.append((k, v.strip()))
        out.append((s, items))
    return out


def sections(path):
    """Main file, then "include" / "include_dir" ("The paths are absolute or relative to the
    config file."; "You can use wildcards"; "All files matching `*.ini` under each directory")."""
    here = os.path.dirname(os.path.abspath(path))
    secs = _parse(path)
    circus = dict(dict(secs).get('circus', []))
    extra = []
    for pat in circus.get('include', '').split():
        extra += sorted(glob.glob(pat if os.path.isabs(pat) else os.path.join(here, pat)))
    for d in circus.get('include_dir', '').split():
        d = d if os.path.isabs(d) else os.path.join(here, d)
        extra += sorted(glob.glob(os.path.join(d, '*.ini')))
    if len(extra) > 1:
        raise Undefined('order of several included files')
    for p in extra:
        names = set(n for n, _ in secs)
        for n, items in _parse(p):
            if n in names:
                raise Undefined('section %r in two files' % n)
            secs.append((n, items))
    return secs


# ---------------------------------------------------------------------------------------------
# semantics

def _fill(table, items, layers, out_free=None):
    written, defaults = {}, {}
    for k, v in items:
        v = expand(v, layers)
        if k in table:
            written[k] = typed(table[k][0], v)
        elif out_free is not None:
            out_free[k] = v
    for k, (kind, dflt) in table.items():
        if k not in written and dflt is not NODEFAULT:
            defaults[k] = dflt
    return written, defaults


def read(path, environ, sys_path=None):
    environ = dict(environ)
    secs = sections(path)
    names = [n for n, _ in secs]
    by_name = dict(secs)
    glob_env = dict(by_name.get('env', []))              # raw text of [env]

    # references outside watcher sections: [env] over os.environ
    base = Layers(glob_env, environ)
    glob_env_x = {}
    for k, v in glob_env.items():
        # a reference inside [env] can only mean the daemon's environment or another [env] entry
        glob_env_x[k] = expand(v, Layers(dict((a, b) for a, b in glob_env.items() if a != k), environ))

    result = {'circus': {}, 'watchers': {}, 'sockets': {}, 'plugins': {}, 'raw': secs}

    w, d = _fill(CIRCUS_OPTIONS, [(k, v) for k, v in by_name.get('circus', [])
                                  if k not in ('include', 'include_dir')], base)
    if 'stats_endpoint' in w and not w.get('statsd', False):
        raise Undefined('stats_endpoint without statsd = True')
    result['circus'] = {'written': w, 'defaults': d}

    env_sections = []          # in file order: ([patterns], {var: raw text})
    for n, items in secs:
        if n.startswith('env:'):
            # "WATCHERS can be a comma separated list of watcher sections"; "wildcards as well"
            pats = n[len('env:'):].split(',')
            if any(p != p.strip() or not p for p in pats):
                raise Undefined('blank in the WATCHERS list')
            env_sections.append((pats, dict(items)))

    for n, items in secs:
        if n.startswith('socket:'):
            w, d = _fill(SOCKET_OPTIONS, items, base)
            result['sockets'][n[len('socket:'):]] = {'written': w, 'defaults': d}
        elif n.startswith('plugin:'):
            # "Every other key found in the section is passed to the plugin constructor"
            result['plugins'][n[len('plugin:'):]] = dict((k, expand(v, base)) for k, v in items)
        elif n.startswith('watcher:'):
            name = n[len('watcher:'):]
            # "if multiple env sections match a watcher, they will be combine in the order they
            #  appear in the configuration file. later entries will take precedence."
            own = {}
            for pats, values in env_sections:
                if any(fnmatch.fnmatchcase(name, p) for p in pats):
                    own.update(values)
            layers = Layers(own, glob_env, environ)

            rec = {'rlimits': {}, 'stdout_stream': {}, 'stderr_stream': {}, 'hooks': {}, 'free': {}}
            plain = []
            for k, v in items:
                if k.startswith('rlimit_'):
                    # "**rlimit_LIMIT** ... The config name should match the RLIMIT_* constants (not
                    #  case sensitive)": LIMIT may be written in any case;
                    # "To set a limit value to RLIM_INFINITY, do not set a value"
                    v = expand(v, layers)
                    rec['rlimits'][k[len('rlimit_'):].lower()] = INFINITY if v == '' else typed(INT, v)
                elif k.lower().startswith('rlimit_'):
                    # the documented option is spelled rlimit_LIMIT; another spelling of the prefix has no meaning
                    raise Undefined('option %r: prefix not spelled rlimit_' % k)
                elif k.startswith('stdout_stream.') or k.startswith('stderr_stream.'):
                    # "All options starting with *stdout_stream.* other than *class* will be passed
                    #  the constructor"
                    rec[k[:13]][k[14:]] = expand(v, layers)
                elif k.startswith('hooks.'):
                    # "The callback definition can be followed by a boolean flag separated by a
                    #  comma. When the flag is set to **true**, any error occuring in the hook will
                    #  be ignored. If set to **false** (the default) ..."
                    v = expand(v, layers)
                    fn, comma, flag = v.partition(',')
                    rec['hooks'][k[len('hooks.'):]] = (fn.strip(), typed(BOOL, flag.strip()) if comma else False)
                else:
                    plain.append((k, v))
            rec['written'], rec['defaults'] = _fill(WATCHER_OPTIONS, plain, layers, rec['free'])

            # the environment of the workers
            env = {}
            if rec['written'].get('copy_env', False):
                # "the local environment variables will be copied and passed to the workers"
                env.update(environ)
                if rec['written'].get('copy_path', False):
                    # "**sys.path** is passed in the subprocess environ using *PYTHONPATH*"
                    import sys
                    env['PYTHONPATH'] = os.pathsep.join(sys.path if sys_path is None else sys_path)
            elif rec['written'].get('copy_path', False):
                raise Undefined('copy_path without copy_env ("copy_env has to be true")')
            # "[env] ... will propagated to all watchers defined in config file."
            env.update(glob_env_x)
            for k, v in own.items():
                env[k] = expand(v, Layers(dict((a, b) for a, b in own.items() if a != k),
                                          glob_env, environ))
            rec['env'] = dict((k, shell_style(v, environ)) for k, v in env.items())

            if rec['written'].get('singleton') and rec['written'].get('numprocesses', 1) not in (0, 1):
                raise Undefined('singleton with several processes')
            if rec['written'].get('virtualenv') and not rec['written'].get('copy_env'):
                raise Undefined('virtualenv without copy_env ("Must be used with copy_env")')
            result['watchers'][name] = rec
        elif n in ('circus', 'env') or n.startswith('env:'):
            pass
        else:
            raise Undefined('section %r' % n)
    return result

"""Reference model for C20 (size-based log rotation): *a log is one string*.

Written from the documentation, not from circus/stream/file_stream.py:

* docs/source/for-ops/configuration.rst, section "FileStream":
    max_bytes     "The max size of the log file before a new file is started.
                   If not provided, the file is not rolled over."
    backup_count  "The number of log files that will be kept"
    note          "... The file being written to is always "app.log" - when it gets filled up, it is
                   closed and renamed to "app.log.1", and if files "app.log.1", "app.log.2" etc. exist,
                   then they are renamed to "app.log.2", "app.log.3" etc. respectively."
                   "... you would get "app.log", "app.log.1", ... through to "app.log.5"" (backup_count 5)
    time_format   "The strftime format that will be used to prefix each [line] with a timestamp."
* the prefix layout "<strftime> [<pid>] | " is the one tests/test_stream.py expects.
* the statement of property C20 in /verif/properties.jsonl.

The model never decides *when* a rollover happens (the documentation only says "nearly max_bytes").
It keeps everything that must have been written, `text`, and judges a snapshot of the scratch
directory against it:

  below_max       no file holds max_bytes or more, as long as every record was shorter than max_bytes
  backup_bound    only <name>.1 .. <name>.<backup_count> exist beside <name>
  contiguous_tail backups oldest -> newest + active file == a suffix of `text`; and from one
                  snapshot to the next the start of that suffix moves forward only by data that fell
                  off the far end (the oldest backup, and only when all backup_count slots were taken)
  prefix_every_line   with a time_format every retained line starts with a prefix that was in use
  plain           without rotation the one file == `text`
"""
import collections
import re

Snapshot = collections.namedtuple('Snapshot', 'active backups strays')
# active : str or None (file absent);  backups : tuple of (index, text) sorted by index ascending
# strays : tuple of other directory entries (names), including <name>.<k> with k outside 1..backup_count
#          -- the caller sorts names into these three groups with `classify_names`.

PREFIX_RE = re.compile(r'^\S+ \[\d+\] \| ')


def classify_name(name, base):
    """-> ('active', None) | ('backup', k) | ('stray', None) for a directory entry."""
    if name == base:
        return 'active', None
    if name.startswith(base + '.'):
        ext = name[len(base) + 1:]
        if ext.isdigit() and str(int(ext)) == ext:
            return 'backup', int(ext)
    return 'stray', None


def prefix_for(stamp, pid):
    """The per-line prefix: formatted time, pid in brackets, a bar."""
    return '%s [%d] | ' % (stamp, pid)


def record_text(payload, prefix=None):
    """What one write must add to the log.

    Without time_format: the payload itself.  With one: every line of the payload, prefixed, each
    terminated by a newline (a chunk that does not end in a newline is still closed, so that the
    next chunk starts on a fresh, prefixed line).  Payloads with empty trailing lines ("a\\n\\n")
    are outside the model (the generator never produces them)."""
    if prefix is None:
        return payload
    lines = payload.split('\n')
    if len(lines) > 1 and lines[-1] == '':
        lines.pop()
    return ''.join(prefix + ln + '\n' for ln in lines)


def oldest_first(snap):
    """File texts in age order: highest backup index first, the active file last."""
    out = [('.%d' % k, t) for k, t in sorted(snap.backups, reverse=True)]
    out.append(('active', snap.active or ''))
    return out


def concat(snap):
    return ''.join(t for _n, t in oldest_first(snap))


class LogTail(object):
    def __init__(self, max_bytes=0, backup_count=0, initial=''):
        self.max_bytes = int(max_bytes)
        self.backup_count = int(backup_count)
        self.initial = initial        # what the file held before the first stream was created
        self.text = initial           # everything that must have reached the log, in order
        self.all_small = True         # every record so far was shorter than max_bytes
        self.prefixes = frozenset()   # prefixes in use so far
        self.last = ''                # the latest record
        self.records = 0

    def copy(self):
        c = LogTail.__new__(LogTail)
        c.__dict__.update(self.__dict__)
        return c

    @property
    def rotating(self):
        return self.max_bytes > 0 and self.backup_count >= 1

    def write(self, payload, prefix=None):
        rec = record_text(payload, prefix)
        self.text += rec
        self.last = rec
        self.records += 1
        if prefix is not None:
            self.prefixes = self.prefixes | {prefix}
        if self.max_bytes > 0 and len(rec) >= self.max_bytes:
            self.all_small = False
        return rec

    # ------------------------------------------------------------------ judgements
    # each returns None when satisfied, else (shape, human detail)

    def below_max(self, snap, before=None, raw_len=None):
        """Only meaningful while self.all_small.  `before`/`raw_len` serve the shape tag only."""
        m = self.max_bytes
        size = len(snap.active or '')
        rolled = before is not None and snap.backups != before.backups
        if size >= m:
            if rolled:
                shape = 'rolled_still_big'
            elif before is not None and raw_len is not None:
                prev = len(before.active or '')
                if prev + raw_len < m and len(self.last) > raw_len:
                    # the payload alone would have fitted; what was written is longer than the payload
                    shape = 'prefix_overflow'
                else:
                    shape = 'missed_rollover'
            else:
                shape = 'big_without_write'
            return shape, 'active file holds %d bytes, max_bytes=%d' % (size, m)
        if rolled and snap.backups:
            k, t = snap.backups[0]
            if len(t) >= m and (before is None or t != (before.active or '')):
                # .1 is not simply the previous active file: the limit was passed inside the call
                return 'backup_big', 'backup .%d holds %d bytes, max_bytes=%d' % (k, len(t), m)
        return None

    def backup_bound(self, snap):
        bad = [k for k, _t in snap.backups if k < 1 or k > self.backup_count]
        if bad:
            return 'index_out_of_range', 'backups %s exist, backup_count=%d' % (
                sorted(k for k, _t in snap.backups), self.backup_count)
        if len(snap.backups) > self.backup_count:
            return 'too_many', '%d backups, backup_count=%d' % (len(snap.backups), self.backup_count)
        if snap.strays:
            return 'stray_file', 'unexpected entries %s' % (list(snap.strays),)
        return None

    def tail_start(self, snap):
        """Offset in `text` where the retained tail starts, or None if the files are not a suffix."""
        got = concat(snap)
        if self.text.endswith(got):
            return len(self.text) - len(got)
        return None

    def contiguous_tail(self, snap):
        if snap.active is None:
            return 'no_active_file', 'the active file does not exist'
        if self.tail_start(snap) is not None:
            if self.last and not concat(snap).endswith(self.last):
                return 'latest_missing', 'the latest record %r is not retained' % self.last
            return None
        spans = []
        for name, t in oldest_first(snap):
            if not t:
                continue
            p = self.text.find(t)
            if p < 0:
                return 'foreign', 'content of %s was never written in one piece: %r' % (name, t[:60])
            spans.append((name, p, p + len(t)))
        for (n1, a1, b1), (n2, a2, b2) in zip(spans, spans[1:]):
            if a2 < a1:
                return 'reorder', '%s [%d,%d) precedes %s [%d,%d) in age but not in the log' % (n1, a1, b1, n2, a2, b2)
            if a2 < b1:
                return 'duplicate', '%s [%d,%d) and %s [%d,%d) overlap' % (n1, a1, b1, n2, a2, b2)
            if a2 > b1:
                return 'gap', 'bytes [%d,%d) missing between %s and %s' % (b1, a2, n1, n2)
        if not spans or spans[-1][2] != len(self.text):
            end = spans[-1][2] if spans else 0
            return 'stale_end', 'retained data ends at %d, %d bytes were written' % (end, len(self.text))
        return 'not_a_suffix', 'files %r vs log %r' % (concat(snap)[-80:], self.text[-80:])

    def premature_drop(self, before, text_len_before, snap):
        """Between two consecutive snapshots (one write apart) retained data may only disappear by
        falling off the far end: the oldest backup, and only when every slot 1..backup_count was taken."""
        got_b = concat(before)
        start_b = text_len_before - len(got_b)
        start_a = self.tail_start(snap)
        if start_a is None or start_b < 0:
            return None
        allowed = 0
        if before.backups and len(before.backups) >= self.backup_count:
            allowed = len(max(before.backups)[1])
        if start_a > start_b + allowed:
            return 'premature_drop', ('retained tail started at %d, now at %d; %d backups of %d existed, '
                                      'oldest held %d bytes' % (start_b, start_a, len(before.backups),
                                                                self.backup_count, allowed))
        return None

    def prefix_every_line(self, snap, skip_initial=False):
        for name, t in oldest_first(snap):
            if skip_initial and name == 'active' and t.startswith(self.initial):
                t = t[len(self.initial):]
            if not t:
                continue
            if not t.endswith('\n'):
                return 'partial_line', '%s does not end with a newline: %r' % (name, t[-40:])
            for ln in t[:-1].split('\n'):
                if not PREFIX_RE.match(ln) or not any(ln.startswith(p) for p in self.prefixes):
                    return 'no_prefix', 'line %r in %s has no timestamp-and-pid prefix' % (ln[:40], name)
        return None

    def plain(self, snap):
        if snap.backups or snap.strays:
            return 'extra_files', 'backups %s strays %s although rotation is off' % (
                [k for k, _t in snap.backups], list(snap.strays))
        if snap.active is None:
            return 'no_file', 'the log file does not exist'
        if snap.active != self.text:
            if self.text.startswith(snap.active):
                shape = 'truncated_end'
            elif self.text.endswith(snap.active):
                shape = 'lost_beginning'
            else:
                shape = 'differs'
            return shape, 'file %r (len %d) vs written %r (len %d)' % (
                snap.active[-60:], len(snap.active), self.text[-60:], len(self.text))
        return None

"""Reference model for the client half of C06: what ONE call() of a control client must do, given what
arrives on its socket after the request was sent.

Written from the property statement ("The client library returns from a call only the reply that bears
that call's id, discarding stale or foreign replies, and reports a timeout otherwise.") and the
documentation of the `timeout` argument (circusctl --timeout: "connection timeout", a number of seconds);
not from circus/client.py.

Input: the *timeline* of the call -- every message that becomes readable on the client's socket from the
instant the request is sent, as (t, own) pairs in arrival order: t = seconds after the request, own = the
message bears this call's id.  Messages that were already waiting on the socket (left over from earlier
calls) have t = 0.  After the last entry nothing ever arrives.

The statement does not say from when the timeout is measured.  Two readings are in use in client
libraries and both are accepted:
  (S) silence: the call gives up when nothing at all has arrived for `timeout` seconds;
  (D) deadline: the call gives up `timeout` seconds after the request.
Where the two readings agree the verdict is strict (RETURN / TIMEOUT); where they differ (the own reply
arrives later than `timeout` after the request, but the socket was never silent for `timeout`) the
verdict is EITHER.  An arrival exactly on a limit is EITHER as well.
"""

RETURN, TIMEOUT, EITHER = 'return', 'timeout', 'either'


class Verdict(object):
    __slots__ = ('kind', 'index', 'give_up_by', 'discarded')

    def __init__(self, kind, index, give_up_by, discarded):
        self.kind = kind                # RETURN / TIMEOUT / EITHER
        self.index = index              # position in the timeline of the reply to return (None for TIMEOUT)
        self.give_up_by = give_up_by    # latest instant (s after the request) at which a timeout may be reported
        self.discarded = discarded      # how many messages have to be thrown away before the verdict is reached

    def __repr__(self):
        return 'Verdict(%s, index=%r, give_up_by=%r, discarded=%d)' % (
            self.kind, self.index, self.give_up_by, self.discarded)


def expected(timeline, timeout):
    """The verdict for one call.  `timeline`: [(t, own)], t non-decreasing; `timeout` in seconds."""
    last = 0.0                      # the request itself is the last activity to begin with
    for i, (t, own) in enumerate(timeline):
        if t < last:
            raise ValueError('timeline is not in arrival order')
        silence = t - last
        if silence > timeout:
            # silent for longer than the timeout: both readings have given up before this message
            return Verdict(TIMEOUT, None, last + timeout, i)
        if silence == timeout or (own and t == timeout):
            # an arrival exactly on a limit: not decided by the statement
            later_own = [j for j in range(i, len(timeline)) if timeline[j][1]]
            return Verdict(EITHER, later_own[0] if later_own else None, last + timeout, i)
        if own:
            # reading S returns it; reading D returns it only inside the deadline
            return Verdict(RETURN if t < timeout else EITHER, i, last + timeout, i)
        last = t
    # nothing (more) arrives: reading S gives up at last + timeout, reading D at timeout <= last + timeout
    return Verdict(TIMEOUT, None, last + timeout, len(timeline))


def reply_to_return(timeline, verdict):
    """Index of the only message the call may return, or None when it may return nothing."""
    if verdict.kind == TIMEOUT:
        return None
    return verdict.index

"""Small reference models written from the documentation, used by the input-enumeration checks."""

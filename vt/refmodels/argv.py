"""Reference model for C13: what a worker's argument vector, environment and directory must be.

Written from the property statement and the documentation
(docs/source/for-ops/configuration.rst, "Formatting the commands and arguments with dynamic
variables"; the Watcher / Process docstrings), not from circus/process.py or circus/util.py:

* a variable reference is written  $(circus.NAME)  or  ((circus.NAME)) ;
  "All variables are prefixed with `circus.`", "The replacement is case insensitive";
* a reference to a known variable is replaced by the variable's value, a reference to an unknown
  variable is left exactly as written; nothing else in the text is touched (a lone `$`, `$x`, `$$`,
  `$(` are ordinary characters); a replaced value is not scanned again;
* "If args is a string, it's splitted using shlex.split"; the same holds for cmd; items of a list
  `args` are kept as given (substituted, never split);
* with shell=True the single command string handed to the shell must, when read back by shell quoting
  rules, give the same vector;
* the directory is the configured working_dir (the current directory when none is configured);
* the environment is the configured env, on top of os.environ when copy_env is set, and nothing else.

Variables the caller may declare known (names are given without the `circus.` prefix):
`wid`, `env.NAME` for every NAME of the worker's environment, `sockets.NAME` for every managed socket.
"""
import shlex

PREFIX = 'circus.'
_SYNTAXES = (('$(', ')'), ('((', '))'))


class Undefined(Exception):
    """The reference assigns no argument vector to this input (e.g. an unbalanced quote)."""


def _name_char(ch):
    return ch.isalnum() or ch in '_.-'


def _reference_at(text, i):
    """If a variable reference starts at text[i]: (NAME without prefix, index after it), else None."""
    for opener, closer in _SYNTAXES:
        if not text.startswith(opener, i):
            continue
        start = i + len(opener)
        end = start
        while end < len(text) and _name_char(text[end]):
            end += 1
        name = text[start:end]
        if len(name) > len(PREFIX) and name[:len(PREFIX)].lower() == PREFIX and text.startswith(closer, end):
            return name[len(PREFIX):], end + len(closer)
    return None


def variables(wid, env=None, sockets=None):
    """The known variables of one worker: lower-cased NAME -> value."""
    known = {'wid': wid}
    for k, v in (env or {}).items():
        known['env.' + k.lower()] = v
    for k, v in (sockets or {}).items():
        known['sockets.' + k.lower()] = v
    return known


def substitute(text, known):
    out = []
    i = 0
    while i < len(text):
        ref = _reference_at(text, i)
        if ref is None:
            out.append(text[i])
            i += 1
            continue
        name, end = ref
        if name.lower() in known:
            out.append(str(known[name.lower()]))
        else:
            out.append(text[i:end])
        i = end
    return ''.join(out)


def _split(text):
    try:
        return shlex.split(text)
    except ValueError as e:
        raise Undefined(str(e))


def argv(cmd, args, known):
    """Argument vector of the worker.  `args`: None, a string, or a list of strings."""
    vec = _split(substitute(cmd, known))
    if args is None:
        return vec
    if isinstance(args, str):
        return vec + _split(substitute(args, known))
    return vec + [substitute(item, known) for item in args]


def read_back_shell_command(command):
    """The vector a POSIX shell's quoting rules give for a command string; Undefined if unreadable."""
    return _split(command)


def environment(env, copy_env, os_environ):
    out = dict(os_environ) if copy_env else {}
    out.update(env or {})
    return out


def directory(working_dir, current_dir):
    return working_dir if working_dir else current_dir

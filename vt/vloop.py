"""VLoop: a real asyncio selector loop (real fds, real self-pipe) whose clock is
virtual and whose iterations are run one at a time by the explorer.

run_forever() does not spin: it hands control to `self.driver(self)` (the
scenario script), which calls step() as often as it likes.  That lets the very
same scripts drive a daemon built with a provided loop and the real
circusd.main(), which calls loop.start() itself.
"""
import asyncio
import heapq
import selectors
from asyncio import events

from vt.clock import CLOCK

TIE_TOL = 1e-5


class OrderedSelector(getattr(selectors, 'EpollSelector', selectors.SelectSelector)):
    """select() never blocks (the explorer owns time) and returns ready fds in
    ascending fd order unless the explorer reorders them."""

    def __init__(self):
        super().__init__()
        self.order_hook = None
        self._cached = None

    def peek(self):
        ready = super().select(0)
        ready.sort(key=lambda kv: kv[0].fd)
        return ready

    def select(self, timeout=None):
        ready = self.peek()
        if self.order_hook is not None and len(ready) > 1:
            ready = self.order_hook(ready)
        return ready


class VLoop(asyncio.SelectorEventLoop):

    def __init__(self):
        self.vsel = OrderedSelector()
        super().__init__(selector=self.vsel)
        self._clock_resolution = 1e-9
        self.driver = None
        self.iterations = 0
        self.unhandled = []          # contexts passed to the exception handler
        self.set_exception_handler(self._on_exception)
        self._selfpipe_fd = self._ssock.fileno()
        # a signal handler ran while the loop was blocked in its selector: the wait goes on (PEP 475) until a descriptor -
        # the wake-up pipe included - is ready or the timeout computed BEFORE the handler ran is over; callbacks the
        # handler queued with a plain call_soon sit in _ready until then
        self.asleep = False
        self.asleep_deadline = None

    def _on_exception(self, loop, context):
        exc = context.get('exception')
        self.unhandled.append((context.get('message'), repr(exc)))

    def time(self):
        return CLOCK.now

    # -- explorer side ----------------------------------------------------
    def next_timer(self):
        """Deadline of the earliest live timer, or None."""
        if self.asleep:
            return self.asleep_deadline
        sched = self._scheduled
        while sched and sched[0]._cancelled:
            h = heapq.heappop(sched)
            h._scheduled = False
            self._timer_cancelled_count -= 1
        return sched[0]._when if sched else None

    def live_timers(self):
        return sorted(h._when for h in self._scheduled if not h._cancelled)

    def has_ready(self):
        return bool(self._ready)

    def fds_ready(self):
        """Ready fds other than the loop's own wake-up pipe."""
        return [k.fd for k, _ in self.vsel.peek() if k.fd != self._selfpipe_fd]

    def runnable_now(self):
        if self.asleep:
            if self.vsel.peek():
                return True
            t = self.asleep_deadline
            return t is not None and t <= CLOCK.now + self._clock_resolution
        if self._ready:
            return True
        if self.vsel.peek():
            return True
        t = self.next_timer()
        return t is not None and t <= CLOCK.now + self._clock_resolution

    def iterate(self):
        """Exactly one faithful _run_once at the current virtual time."""
        CLOCK.begin_callback()
        self.iterations += 1
        self.asleep = False
        self._run_once()

    # -- what circus / tornado call -----------------------------------------
    def run_forever(self):
        self._check_closed()
        if self.driver is None:
            raise RuntimeError("VLoop.run_forever without a driver")
        self._stopping = False
        try:
            self.driver(self)
        finally:
            self._stopping = False

    def stop_requested(self):
        return self._stopping

    def run_until_complete(self, future):
        # used by circusd's emergency stop (loop.run_sync); drive to completion
        fut = asyncio.ensure_future(future, loop=self)
        guard = 0
        while not fut.done():
            guard += 1
            if guard > 100000:
                raise RuntimeError("run_until_complete did not finish")
            if self.runnable_now():
                self.iterate()
            else:
                t = self.next_timer()
                if t is None:
                    raise RuntimeError("run_until_complete: deadlock")
                CLOCK.advance_to(t)
                self.iterate()
        return fut.result()


def make_current(loop):
    asyncio.set_event_loop(loop)
    events._set_running_loop(loop)


def unmake_current():
    events._set_running_loop(None)
    asyncio.set_event_loop(None)

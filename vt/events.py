"""External events offered at L-points / K-points."""
import signal
from vt.simkernel import wstatus_exit, wstatus_signal


class Event(object):
    label = '?'

    def apply(self, world):
        raise NotImplementedError


class Req(Event):
    def __init__(self, command, label=None, **props):
        self.command = command
        self.props = props
        self.label = label or ('req(%s%s)' % (command, ''.join(
            ',%s=%s' % (k, v) for k, v in sorted(props.items()))))
        self.request = None

    def apply(self, world):
        self.request = world.request(self.command, **dict(self.props))
        world.last_request = self.request
        return self.request


class Die(Event):
    def __init__(self, pid, wstatus, tag=None):
        self.pid = pid
        self.wstatus = wstatus
        self.label = 'die(%s,%s)' % (tag if tag is not None else pid, wstatus)

    def apply(self, world):
        world.die(self.pid, self.wstatus)


class DaemonSignal(Event):
    def __init__(self, signum):
        self.signum = signum
        self.label = 'sig(%d)' % signum

    def apply(self, world):
        world.signal_daemon(self.signum)


class Call(Event):
    def __init__(self, label, fn):
        self.label = label
        self.fn = fn

    def apply(self, world):
        self.fn(world)


EXIT1 = wstatus_exit(1)
KILLED9 = wstatus_signal(9)


def deaths(world, statuses=(EXIT1, KILLED9), watcher=None):
    out = []
    for p in world.kernel.running_workers():
        if watcher is not None and (p.watcher or '').lower() != watcher:
            continue
        for st in statuses:
            out.append(Die(p.pid, st, tag='%s#%d' % (p.watcher, p.pid - 5_000_000)))
    if getattr(world, 'deaths_include_descendants', False):
        # children / grandchildren of workers may die too (one status is enough: nobody waits for them)
        for p in world.kernel.spawn_log_all() if hasattr(world.kernel, 'spawn_log_all') else []:
            if p.state == 'RUNNING' and not p.is_worker:
                out.append(Die(p.pid, statuses[0], tag='child#%d' % (p.pid - 5_000_000)))
    return out

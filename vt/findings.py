"""Known findings, replay files, VIOLATION lines."""
import hashlib
import json
import os
import re

VERIF = os.path.dirname(os.path.dirname(os.path.abspath(__file__)))
KNOWN = os.path.join(VERIF, 'known_findings.json')


def load_known():
    if not os.path.exists(KNOWN):
        return []
    with open(KNOWN) as f:
        data = json.load(f)
    return [e for e in data.get('findings', []) if e.get('status', 'open') == 'open']


def fingerprint(v):
    """Coarse identity of a violation for deduplication within a run."""
    if v.get('fp') is not None:
        return v['fp']
    return hashlib.sha1(json.dumps(v.get('scenario'), sort_keys=True, default=repr).encode()).hexdigest()[:10]


def _scn_matches(pattern, scenario):
    params = dict((scenario or {}).get('params', {}))
    params['name'] = (scenario or {}).get('name')
    for k, allowed in (pattern or {}).items():
        val = params.get(k)
        if isinstance(allowed, list):
            if val not in allowed:
                return False
        elif isinstance(allowed, dict) and 'regex' in allowed:
            if not re.search(allowed['regex'], str(val)):
                return False
        elif val != allowed:
            return False
    return True


def _events_match(regexes, deviations):
    """Each regex must match a deviation label, in order (subsequence)."""
    i = 0
    for rx in regexes or []:
        while i < len(deviations) and not re.search(rx, deviations[i]):
            i += 1
        if i >= len(deviations):
            return False
        i += 1
    return True


def _pattern_matches(pat, v):
    if not _scn_matches(pat.get('scenario'), v.get('scenario')):
        return False
    if not _events_match(pat.get('events'), v.get('deviations', [])):
        return False
    if 'max_deviations' in pat and len(v.get('deviations', [])) > pat['max_deviations']:
        return False
    if 'detail_regex' in pat and not re.search(pat['detail_regex'], str(v.get('detail'))):
        return False
    return True


def match_known(known, prop_id, v):
    for k in known:
        if k['property'] != prop_id or k['clause'] != v['clause']:
            continue
        if k.get('where') is not None and k['where'] != v.get('where'):
            continue
        pats = k.get('pattern', {})
        if not isinstance(pats, list):
            pats = [pats]
        if not any(_pattern_matches(pat, v) for pat in pats):
            continue
        return k
    return None


def write_replay(prop_id, v):
    base = os.environ.get('VERIF_EVIDENCE_DIR')
    d = os.path.join(os.path.dirname(base), 'replays', prop_id) if base else os.path.join(VERIF, 'replays', prop_id)
    os.makedirs(d, exist_ok=True)
    body = {'property': prop_id, 'clause': v['clause'], 'where': v.get('where'),
            'scenario': v.get('scenario'), 'ctx': v.get('ctx'), 'choices': v.get('choices'),
            'labels': v.get('labels'), 'deviations': v.get('deviations'),
            'detail': v.get('detail'), 'trace': v.get('trace'), 'case': v.get('case')}
    h = hashlib.sha1(json.dumps([body['clause'], body['where'], body['scenario'], body['choices'],
                                 body['case']], sort_keys=True, default=repr).encode()).hexdigest()[:12]
    path = os.path.join(d, '%s_%s.json' % (v['clause'].split('.')[-1], h))
    with open(path, 'w') as f:
        json.dump(body, f, indent=1, default=repr)
    return path

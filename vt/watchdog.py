"""Wall-clock watchdog for one execution: the virtual clock owns time.sleep and the loop, but not a REAL blocking system
call made by the code under test (a read on a blocking pipe, a waitpid without WNOHANG on a real pid...).  Such a call
would hang the explorer process for ever; the watchdog turns it into an exception after `seconds` of wall time."""
import signal
import traceback


class Hang(BaseException):
    def __init__(self, where):
        BaseException.__init__(self, where)
        self.where = where


FIRED = None        # set when the alarm went off: asyncio's Handle._run swallows BaseException raised inside a callback, so
                    # the harness (World.check_blocked) raises again from outside the callback


def check():
    if FIRED is not None:
        raise Hang(FIRED)


class limit(object):
    def __init__(self, seconds):
        self.seconds = seconds
        self.old = None

    def _fire(self, signum, frame):
        stack = traceback.extract_stack(frame)
        global FIRED
        site = ['%s:%d:%s' % (f.filename.rsplit('/', 1)[-1], f.lineno, f.name) for f in stack if '/circus/' in f.filename][-4:]
        where = ' <- '.join(reversed(site)) or 'outside circus'
        if FIRED is None:
            FIRED = where
        signal.setitimer(signal.ITIMER_REAL, 1.0)       # keep interrupting: the callback may block again
        raise Hang(FIRED)

    def __enter__(self):
        global FIRED
        FIRED = None
        try:
            self.old = signal.signal(signal.SIGALRM, self._fire)
            signal.setitimer(signal.ITIMER_REAL, self.seconds)
        except ValueError:          # not in the main thread
            self.old = None
        return self

    def __exit__(self, *exc):
        try:
            signal.setitimer(signal.ITIMER_REAL, 0)
            if self.old is not None:
                signal.signal(signal.SIGALRM, self.old)
        except ValueError:
            pass
        return False

"""check driver: runs a property module, prints verdict lines, writes evidence."""
import importlib
import json
import multiprocessing as mp
import os
import sys
import time
import traceback

from vt import evidence as E
from vt import explorer as X
from vt import findings as F
from vt import runner as R

perf = time.perf_counter

COMMON_ASSUMPTIONS = [
    'environment model (vt/simkernel.py): Linux process semantics as fixed by the conformance matrix; '
    'no pid reuse; signals delivered instantly (plus an explicit kill-latency variant where stated)',
    'zmq transport replaced by frame capture at the send call; requests enter through the real '
    'Controller.handle_message',
    'virtual clock: time.time/time.sleep and the loop clock are one virtual clock owned by the explorer',
    'bounds as listed under coverage.bounds; nothing outside them is covered',
]


class EnumResult(object):
    """Result of one shard of a bounded-exhaustive input enumeration."""

    def __init__(self):
        self.cases = 0
        self.nontrivial = set()      # digests of distinct non-trivial cases (capped)
        self.nontrivial_count = 0
        self.violations = []         # dicts: clause, detail, where, case
        self.clauses = {}
        self.samples = []
        self.outcomes = set()
        self.info = {}

    def ev(self, clause, nontrivial=True):
        c = self.clauses.setdefault(clause, [0, 0])
        c[0] += 1
        if nontrivial:
            c[1] += 1

    def fail(self, clause, detail, where, case, fp=None):
        if len(self.violations) < 300:
            self.violations.append({'clause': clause, 'detail': detail, 'where': where, 'case': case,
                                    'fp': fp, 'scenario': {'name': 'enum', 'params': {}},
                                    'choices': [], 'labels': [], 'deviations': []})

    def check(self, clause, cond, detail, where, case, fp=None, nontrivial=True):
        self.ev(clause, nontrivial)
        if not cond:
            self.fail(clause, detail() if callable(detail) else detail, where, case, fp)
        return cond


_EMOD = None


def _enum_init(modname):
    global _EMOD
    _EMOD = importlib.import_module(modname)


ENUM_SHARD_WALL_LIMIT = 1800      # seconds of wall time for one shard of an enumeration (they take seconds to minutes)


def _enum_shard(args):
    shard, tier = args
    from vt.watchdog import limit, Hang
    try:
        with limit(ENUM_SHARD_WALL_LIMIT):
            return _EMOD.run_shard(shard, tier)
    except Hang as h:
        r = EnumResult()
        r.fail('HARNESS.real_blocking_call', 'the shard did not return within %ds of wall time; the daemon code was at %s'
               % (ENUM_SHARD_WALL_LIMIT, h.where), 'blocked-for-real@' + (h.where.split(' <- ')[0] if h.where else '?'),
               {'shard': repr(shard)})
        return r
    except Exception:
        r = EnumResult()
        r.fail('HARNESS.crash', traceback.format_exc()[-2000:], 'harness', {'shard': repr(shard)})
        return r


def run_enum(mod, tier, seed):
    shards = list(mod.shards(tier))
    if shards:
        k = seed % len(shards)
        shards = shards[k:] + shards[:k]
    total = EnumResult()
    nontrivial = set()
    ctx = mp.get_context('fork')
    with ctx.Pool(R.NPROC, initializer=_enum_init, initargs=(mod.__name__,)) as pool:
        for r in pool.imap_unordered(_enum_shard, [(s, tier) for s in shards], chunksize=1):
            total.cases += r.cases
            nontrivial |= r.nontrivial
            total.nontrivial_count += r.nontrivial_count
            total.violations.extend(r.violations)
            total.outcomes |= r.outcomes
            for k2, v in r.clauses.items():
                c = total.clauses.setdefault(k2, [0, 0])
                c[0] += v[0]
                c[1] += v[1]
            for s in r.samples:
                if len(total.samples) < 6:
                    total.samples.append(s)
            for k2, v in r.info.items():
                if isinstance(v, (int, float)):
                    total.info[k2] = total.info.get(k2, 0) + v
                else:
                    total.info.setdefault(k2, v)
    total.nontrivial = nontrivial
    total.info['shards'] = len(shards)
    return total


def report_enum(mod, prop_id, total):
    """Dedupe, match known findings, write replay files."""
    known = F.load_known()
    by_key = {}
    for v in total.violations:
        key = (v['clause'], v.get('where'), v.get('fp') if v.get('fp') is not None else json.dumps(v['case'], sort_keys=True, default=repr))
        if key not in by_key:
            by_key[key] = v
    lines, new, known_hits = [], 0, {}
    for key, v in sorted(by_key.items(), key=lambda kv: repr(kv[0])):
        k = F.match_known(known, prop_id, v)
        if k is not None:
            known_hits[k['id']] = (k, known_hits.get(k['id'], (k, 0))[1] + 1)
            continue
        new += 1
        if new <= 25:
            path = F.write_replay(prop_id, v)
            lines.append('VIOLATION property=%s replay=%s' % (prop_id, path))
            lines.append('  clause=%s where=%s' % (v['clause'], v.get('where')))
            lines.append('  case=%s' % json.dumps(v['case'], default=repr)[:400])
            lines.append('  detail=%s' % str(v['detail'])[:500])
    for kid, (k, n) in sorted(known_hits.items()):
        lines.append('KNOWN-FINDING: property=%s %s [%s; %d distinct witnesses this run]'
                     % (prop_id, k['summary'], kid, n))
    return new, known_hits, lines


def run_check(mod, tier, seed, budget=None, selftest=False):
    t0 = perf()
    prop_id = mod.ID
    budget = budget or getattr(mod, 'BUDGET', {}).get(tier, 90 if tier == 'quick' else 900)
    lines = []
    new = 0
    cov = {}
    level = getattr(mod, 'LEVEL', 'model_checking')
    known_total = {}
    kinds = getattr(mod, 'KINDS', None) or [getattr(mod, 'KIND', 'explorer')]
    vac = []
    conf = None
    uses_kernel = getattr(mod, 'USES_KERNEL', 'explorer' in kinds)
    live = None
    live_names = getattr(mod, 'LIVE', {}).get(tier)
    if live_names and not os.environ.get('VERIF_SKIP_CONFORMANCE'):
        import subprocess
        live = subprocess.Popen([sys.executable, os.path.join(R.VERIF, 'vt', 'livereplay.py')] + list(live_names),
                                stdout=subprocess.PIPE, stderr=subprocess.PIPE,
                                env=dict(os.environ, PYTHONPATH=R.VERIF, PYTHONHASHSEED='0'), cwd='/')
    if uses_kernel and not os.environ.get('VERIF_SKIP_CONFORMANCE'):
        import subprocess
        cmd = [sys.executable, os.path.join(R.VERIF, 'vt', 'live.py')] + (['--pairs'] if tier == 'thorough' else [])
        env = dict(os.environ, PYTHONPATH=R.VERIF)
        conf = subprocess.Popen(cmd, stdout=subprocess.PIPE, stderr=subprocess.PIPE, env=env, cwd='/')
    for kind in kinds:
        if kind == 'explorer':
            stats, meta, scns = R.run_explorer_property(mod, tier, seed, budget)
            n, kh, ls = R.confirm_and_report(mod, tier, stats, scns, prop_id)
            new += n
            lines += ls
            known_total.update(kh)
            if meta.get('nondeterministic_scenarios'):
                new += 1
                path = F.write_replay(prop_id, {'clause': 'HARNESS.nondeterminism', 'where': 'harness',
                                                'scenario': meta['nondeterministic_scenarios'][0],
                                                'choices': [], 'detail': 'default execution differs between two runs'})
                lines.append('VIOLATION property=%s replay=%s' % (prop_id, path))
                lines.append('  harness: default execution of %d scenario(s) is not deterministic' %
                             len(meta['nondeterministic_scenarios']))
            c = E.explorer_coverage(stats, meta, getattr(mod, 'RULE', ''))
            cov.update(c)
            vac += c['vacuous_clauses']
        elif kind == 'enum':
            total = run_enum(mod, tier, seed)
            n, kh, ls = report_enum(mod, prop_id, total)
            new += n
            lines += ls
            known_total.update(kh)
            clauses = {k: {'evaluations': v[0], 'nontrivial': v[1]} for k, v in sorted(total.clauses.items())}
            ecov = {
                'evaluations': total.cases,
                'distinct_nontrivial': len(total.nontrivial) + total.nontrivial_count,
                'rule': getattr(mod, 'RULE', ''),
                'samples': total.samples or [{'note': 'none'}],
                'exhaustive': True,
                'enum_clauses': clauses,
                'enum_distinct_outcomes': len(total.outcomes),
                'enum_info': total.info,
            }
            vac += sorted(k for k, v in total.clauses.items() if v[1] == 0)
            if 'evaluations' in cov:
                # explorer part already filled the generic keys: keep both
                cov['enum'] = ecov
            else:
                cov.update(ecov)
        elif kind == 'custom':
            out = mod.custom(tier, seed, budget)
            new_v = out.get('violations', [])
            if new_v:
                tot = EnumResult()
                tot.violations = new_v
                n, kh, ls = report_enum(mod, prop_id, tot)
                new += n
                lines += ls
                known_total.update(kh)
            for k2, v in out.get('coverage', {}).items():
                cov.setdefault(k2, v)
    from vt import clock as _clock
    _clock.uninstall()          # subprocess' timeout handling polls with time.sleep: it must be the real one here
    if conf is not None:
        try:
            out, err = conf.communicate(timeout=600)
            cres = json.loads(out.decode() or '{}')
            if not cres.get('cases'):
                cres = {'cases': 0, 'mismatches': [{'error': 'conformance process produced no result',
                                                    'stderr': err.decode('utf8', 'replace')[-1500:]}]}
        except Exception as e:
            conf.kill()
            cres = {'cases': 0, 'mismatches': [{'error': repr(e)}]}
        cov['env_model_conformance_cases'] = cres.get('cases', 0)
        cov['env_model_conformance_mismatches'] = len(cres.get('mismatches', []))
        cov['env_model_conformance'] = ('process condition x call matrix (single calls%s) run on vt/simkernel.py and on real '
                                        'psutil.Popen children of this kernel; results must agree' %
                                        (' and all ordered pairs' if tier == 'thorough' else ''))
        if cres.get('mismatches') or not cres.get('cases'):
            new += 1
            path = F.write_replay(prop_id, {'clause': 'HARNESS.env_model_mismatch', 'where': 'vt/simkernel.py',
                                            'scenario': {'name': 'conformance', 'params': {}}, 'choices': [],
                                            'detail': json.dumps(cres.get('mismatches'))[:3000]})
            lines.append('VIOLATION property=%s replay=%s' % (prop_id, path))
            lines.append('  harness: the environment model disagrees with the real kernel/psutil: %s'
                         % json.dumps(cres.get('mismatches'))[:600])
    if live is not None:
        try:
            out, err = live.communicate(timeout=900)
            lres = json.loads(out.decode() or '{}')
            if not lres:
                lres = {'histories': 0, 'mismatches': [{'error': 'live replay process produced no result',
                                                        'stderr': err.decode('utf8', 'replace')[-1500:]}]}
        except Exception as e:
            live.kill()
            lres = {'histories': 0, 'mismatches': [{'error': repr(e)}]}
        cov['live_replays'] = lres.get('histories', 0)
        cov['live_replay_mismatches'] = len(lres.get('mismatches', []))
        cov['live_replay_note'] = ('histories run on a real circusd process (real zmq, epoll, clock, worker processes) and on the '
                                   'simulation; event sequences per phase, replies and final state must be equal')
        cov['live_replay_samples'] = lres.get('samples', [])[:1]
        if lres.get('mismatches') or not lres.get('histories'):
            new += 1
            path = F.write_replay(prop_id, {'clause': 'HARNESS.live_replay_mismatch', 'where': 'vt/livereplay.py',
                                            'scenario': {'name': 'live', 'params': {}}, 'choices': [],
                                            'detail': json.dumps(lres.get('mismatches'))[:4000]})
            lines.append('VIOLATION property=%s replay=%s' % (prop_id, path))
            lines.append('  harness: the simulation disagrees with a real circusd on a replayed history: %s'
                         % json.dumps(lres.get('mismatches'))[:800])
    if hasattr(mod, 'bounds'):
        cov['bounds'] = mod.bounds(tier)
    cov['known_findings_hit'] = sorted(known_total)
    wall = perf() - t0
    E.write(prop_id, tier, seed, level, cov, COMMON_ASSUMPTIONS + list(getattr(mod, 'ASSUMPTIONS', [])),
            wall, new)
    for ln in lines:
        print(ln)
    print('%s tier=%s seed=%d wall=%.1fs %s violations=%d known=%d' % (
        prop_id, tier, seed, wall, _summary(cov), new, len(known_total)))
    if selftest and vac:
        print('SELFTEST: vacuous clauses: %s' % vac)
        return 3
    return 1 if new else 0


def _summary(cov):
    parts = []
    for k in ('executions', 'states', 'transitions', 'evaluations', 'distinct_outcomes', 'aborted_executions',
              'caps_hit'):
        if k in cov:
            parts.append('%s=%s' % (k, cov[k]))
    return ' '.join(parts)


def replay(mod, path, tier):
    if getattr(mod, 'KIND', 'explorer') == 'explorer' or 'explorer' in (getattr(mod, 'KINDS', None) or []):
        with open(path) as f:
            v = json.load(f)
        if v.get('case') is None:
            return R.replay_file(mod, path, tier)
    with open(path) as f:
        v = json.load(f)
    viol = mod.replay_case(v['case'])
    for c, d, w in viol:
        print('FAILED %s at %s: %s' % (c, w, d))
    if any(c == v['clause'] for c, d, w in viol):
        print('VIOLATION property=%s replay=%s' % (v['property'], path))
        return 1
    print('clause %s holds on this tree for this case' % v['clause'])
    return 0

#!/venv/bin/python
"""tools/mutsweep.py gen|tests|checks|report  [--n N] [--seed S] [--jobs J]

A mechanical mutation sweep over the circus sources, complementary to the hand-made and sub-agent-made breaking changes
under seeded/: it answers "which small edits that the repository's own tests accept do the checks miss?".

  gen     : enumerate single-site mutants (comparison / boolean operator flips, negated conditions, deleted statements,
            dropped `yield`s, constant +-1, flipped boolean returns) in the files the properties are anchored in and sample N
            of them (seeded) into <work>/mutants.json
  tests   : for every mutant, copy the repository to a scratch dir, apply the edit and run the repository's test suite in
            a private network namespace; mutants the suite rejects are not interesting (status 'killed-by-tests')
  checks  : for every mutant the suite accepted, run the quick checks mapped to the edited file with VERIF_REPO=<scratch>;
            status 'caught' (with the first VIOLATION) or 'survived'
  report  : table of the outcome

/repo is never edited.  Work dir: /tmp/mutsweep (removed mutant by mutant; only mutants.json / results.json stay).
"""
import argparse
import ast
import json
import os
import random
import shutil
import subprocess
import sys
from concurrent.futures import ThreadPoolExecutor

REPO = '/repo'
WORK = '/tmp/mutsweep'
VERIF = os.path.dirname(os.path.dirname(os.path.abspath(__file__)))

FILES = {
    # file: (weight, checks that exercise it)
    'circus/watcher.py': (10, ['C02', 'C05', 'C14', 'C17', 'C09', 'C04', 'C13', 'C19', 'C01', 'C10', 'C11', 'C12', 'C08', 'C07', 'C03']),
    'circus/arbiter.py': (8, ['C10', 'C08', 'C02', 'C19', 'C05', 'C11', 'C07', 'C09', 'C12', 'C15', 'C01', 'C04']),
    'circus/controller.py': (3, ['C06', 'C10', 'C11', 'C05', 'C08']),
    'circus/process.py': (4, ['C13', 'C07', 'C03', 'C18', 'C04', 'C17']),
    'circus/util.py': (4, ['C13', 'C16', 'C18', 'C10', 'C06', 'C11']),
    'circus/sockets.py': (2, ['C07', 'C08', 'C16']),
    'circus/config.py': (3, ['C16', 'C12']),
    'circus/stream/file_stream.py': (2, ['C20']),
    'circus/stream/redirector.py': (2, ['C17']),
    'circus/client.py': (1, ['C06']),
    'circus/sighandler.py': (1, ['C08']),
    'circus/circusd.py': (1, ['C08']),
    'circus/commands/sendsignal.py': (1, ['C18', 'C06', 'C11']),
    'circus/commands/util.py': (1, ['C11', 'C06', 'C15', 'C18']),
    'circus/commands/kill.py': (1, ['C18', 'C06', 'C11', 'C05']),
    'circus/commands/set.py': (1, ['C11', 'C06', 'C14', 'C01']),
    'circus/commands/addwatcher.py': (1, ['C15', 'C11', 'C06']),
    'circus/commands/rmwatcher.py': (1, ['C15', 'C02', 'C06']),
    'circus/commands/incrproc.py': (1, ['C01', 'C06', 'C11']),
    'circus/commands/decrproc.py': (1, ['C01', 'C06', 'C11']),
    'circus/commands/base.py': (1, ['C06', 'C11']),
    'circus/commands/reloadconfig.py': (1, ['C12', 'C06']),
    'circus/commands/restart.py': (1, ['C01', 'C02', 'C06']),
    'circus/commands/reload.py': (1, ['C01', 'C06']),
    'circus/commands/stop.py': (1, ['C02', 'C06']),
    'circus/commands/start.py': (1, ['C02', 'C06', 'C14']),
}
SKIP_FUNCS = {'__repr__', '__str__', 'debuglog', 'info', 'stats', 'get_info', 'print_', 'dostats', 'age'}
CMP = {ast.Lt: ('<', '<='), ast.LtE: ('<=', '<'), ast.Gt: ('>', '>='), ast.GtE: ('>=', '>'), ast.Eq: ('==', '!='),
       ast.NotEq: ('!=', '=='), ast.Is: ('is', 'is not'), ast.IsNot: ('is not', 'is'), ast.In: ('in', 'not in'),
       ast.NotIn: ('not in', 'in')}


def seg(lines, node):
    """(start offset, end offset) of a node in the joined source."""
    def off(l, c):
        return sum(len(x) for x in lines[:l - 1]) + len(lines[l - 1].encode()[:c].decode())
    return off(node.lineno, node.col_offset), off(node.end_lineno, node.end_col_offset)


def mutants_of(rel):
    src = open(os.path.join(REPO, rel)).read()
    lines = src.splitlines(True)
    tree = ast.parse(src)
    out = []

    def add(kind, a, b, new, line, func):
        old = src[a:b]
        if old == new:
            return
        out.append({'file': rel, 'line': line, 'func': func, 'kind': kind, 'start': a, 'end': b, 'old': old, 'new': new})

    def is_logger(call):
        f = call.func
        return isinstance(f, ast.Attribute) and isinstance(f.value, ast.Name) and f.value.id in ('logger', 'warnings', 'logging')

    def visit(node, func):
        for child in ast.iter_child_nodes(node):
            f = func
            if isinstance(child, (ast.FunctionDef, ast.AsyncFunctionDef)):
                f = child.name
                if f in SKIP_FUNCS:
                    continue
            visit(child, f)
        if func is None:
            return
        if isinstance(node, ast.Compare) and len(node.ops) == 1 and type(node.ops[0]) in CMP:
            a = seg(lines, node.left)[1]
            b = seg(lines, node.comparators[0])[0]
            old, new = CMP[type(node.ops[0])]
            mid = src[a:b]
            if mid.strip() == old:
                add('cmp', a, b, mid.replace(old, new), node.lineno, func)
        elif isinstance(node, ast.BoolOp) and len(node.values) == 2:
            a = seg(lines, node.values[0])[1]
            b = seg(lines, node.values[1])[0]
            mid = src[a:b]
            old, new = ('and', 'or') if isinstance(node.op, ast.And) else ('or', 'and')
            if mid.strip().strip('\\').strip() == old:
                add('boolop', a, b, mid.replace(old, new), node.lineno, func)
        elif isinstance(node, (ast.If, ast.While)) and not isinstance(node.test, ast.Constant):
            a, b = seg(lines, node.test)
            add('negate', a, b, 'not (%s)' % src[a:b], node.lineno, func)
        elif isinstance(node, ast.Expr) and isinstance(node.value, ast.Call) and not is_logger(node.value):
            a, b = seg(lines, node)
            if '\n' not in src[a:b] or True:
                add('delstmt', a, b, 'pass', node.lineno, func)
        elif isinstance(node, ast.Expr) and isinstance(node.value, ast.Yield) and node.value.value is not None:
            a, b = seg(lines, node)
            va, vb = seg(lines, node.value.value)
            add('dropyield', a, b, src[va:vb], node.lineno, func)
        elif isinstance(node, ast.Assign) and len(node.targets) == 1 and isinstance(node.targets[0], (ast.Attribute, ast.Subscript)):
            a, b = seg(lines, node)
            add('delassign', a, b, 'pass', node.lineno, func)
        elif isinstance(node, ast.Constant) and isinstance(node.value, int) and not isinstance(node.value, bool) \
                and 0 <= node.value <= 10:
            a, b = seg(lines, node)
            add('const', a, b, str(node.value + 1), node.lineno, func)
        elif isinstance(node, ast.Return) and isinstance(node.value, ast.Constant) and isinstance(node.value.value, bool):
            a, b = seg(lines, node.value)
            add('retbool', a, b, str(not node.value.value), node.lineno, func)
    visit(tree, None)
    return out


def gen(n, seed):
    rnd = random.Random(seed)
    pool = []
    for rel, (w, _) in FILES.items():
        ms = mutants_of(rel)
        for m in ms:
            m['weight'] = w / max(1, len(ms)) ** 0.5
        pool += ms
    chosen = []
    weights = [m['weight'] for m in pool]
    idx = list(range(len(pool)))
    while len(chosen) < min(n, len(pool)):
        i = rnd.choices(idx, weights=[weights[j] for j in idx])[0]
        idx.remove(i)
        chosen.append(pool[i])
    for k, m in enumerate(chosen):
        m['id'] = 'm%03d' % k
        m['status'] = 'new'
        m['base'] = head()
        m.pop('weight', None)
    os.makedirs(WORK, exist_ok=True)
    json.dump({'pool': len(pool), 'mutants': chosen}, open(os.path.join(WORK, 'mutants.json'), 'w'), indent=1)
    print('pool=%d chosen=%d' % (len(pool), len(chosen)))


def scratch(m):
    d = os.path.join(WORK, m['id'])
    shutil.rmtree(d, ignore_errors=True)
    os.makedirs(d)
    for sub in ('circus', 'tests'):
        shutil.copytree(os.path.join(REPO, sub), os.path.join(d, sub))
    for f in ('pyproject.toml',):
        if os.path.exists(os.path.join(REPO, f)):
            shutil.copy(os.path.join(REPO, f), d)
    p = os.path.join(d, m['file'])
    src = open(p).read()
    a, b = m['start'], m['end']
    if src[a:b] != m['old'] or (m.get('base') and m['base'] != head()):
        a, b = relocate(m, src)
    assert src[a:b] == m['old'], 'cannot re-locate mutant %s' % m['id']
    open(p, 'w').write(src[:a] + m['new'] + src[b:])
    return d


def head():
    return subprocess.check_output(['git', '-C', REPO, 'rev-parse', 'HEAD'], text=True).strip()


def relocate(m, src):
    """/repo moved on since `gen` (a fix: commit): find the mutated text again through its line in the base commit."""
    base = subprocess.check_output(['git', '-C', REPO, 'show', '%s:%s' % (m['base'], m['file'])], text=True)
    ls = base[:m['start']].count('\n')
    line_start = base.rfind('\n', 0, m['start']) + 1
    line_end = base.find('\n', m['start'])
    text = base[line_start:line_end]
    col = m['start'] - line_start
    lines = src.splitlines(True)
    cands = [i for i, l in enumerate(lines) if l.rstrip('\n') == text]
    if not cands:
        raise AssertionError('line of mutant %s is gone' % m['id'])
    i = min(cands, key=lambda k: abs(k - ls))
    a = sum(len(x) for x in lines[:i]) + col
    return a, a + len(m['old'])


def load():
    return json.load(open(os.path.join(WORK, 'mutants.json')))


def save(data):
    tmp = os.path.join(WORK, 'mutants.json.tmp')
    json.dump(data, open(tmp, 'w'), indent=1)
    os.replace(tmp, os.path.join(WORK, 'mutants.json'))


def run_tests(m):
    d = scratch(m)
    try:
        r = subprocess.run(['/venv/bin/python', '-m', 'py_compile', os.path.join(d, m['file'])], capture_output=True)
        if r.returncode != 0:
            return 'invalid'
        cmd = ('ip link set lo up; cd %s && timeout 900 /venv/bin/python -m pytest -q -x -p no:cacheprovider -p no:hypothesispytest '
               '--timeout=300 --deselect tests/test_process.py::TestProcess::test_streams '
               '--deselect tests/test_watcher.py::TestWatcher::test_max_age 2>&1 | tail -3' % d)
        r = subprocess.run(['unshare', '-n', 'sh', '-c', cmd], capture_output=True, text=True)
        tail = r.stdout.strip().splitlines()[-1] if r.stdout.strip() else ''
        ok = ' passed' in tail and 'failed' not in tail and 'error' not in tail
        return 'tests-pass' if ok else 'killed-by-tests'
    finally:
        shutil.rmtree(d, ignore_errors=True)


def phase_tests(jobs):
    data = load()
    todo = [m for m in data['mutants'] if m['status'] == 'new']

    def work(m):
        try:
            m['status'] = run_tests(m)
        except Exception as e:
            m['status'] = 'new'
            m['error'] = repr(e)
        print(m['id'], m['file'], m['line'], m['kind'], m['status'], flush=True)
        return m
    with ThreadPoolExecutor(jobs) as ex:
        for k, _ in enumerate(ex.map(work, todo)):
            if k % 8 == 0:
                save(data)
    save(data)


def phase_checks(only=None):
    data = load()
    for m in data['mutants']:
        if m['status'] != 'tests-pass':
            continue
        if only and m['id'] not in only:
            continue
        d = scratch(m)
        try:
            m['checks'] = {}
            m['status'] = 'survived'
            for c in FILES[m['file']][1]:
                env = dict(os.environ, VERIF_REPO=d, VERIF_EVIDENCE_DIR=os.path.join(d, 'evidence'), VERIF_SKIP_CONFORMANCE='1')
                try:
                    r = subprocess.run([os.path.join(VERIF, 'check'), c], env=env, capture_output=True, text=True, timeout=1500)
                    rc, out = r.returncode, r.stdout
                except subprocess.TimeoutExpired:
                    rc, out = 'timeout', ''
                viol = [l for l in out.splitlines() if l.startswith('  clause=')]
                m['checks'][c] = rc
                if rc != 0:
                    m['status'] = 'caught'
                    m['caught_by'] = c
                    m['witness'] = (viol[0][:300] if viol else out[-300:])
                    break
            print(m['id'], m['file'], m['line'], m['kind'], m['status'], m.get('caught_by', ''), flush=True)
        finally:
            shutil.rmtree(d, ignore_errors=True)
        save(data)


def report():
    data = load()
    by = {}
    for m in data['mutants']:
        by.setdefault(m['status'], []).append(m)
    print('pool=%d sampled=%d  ' % (data['pool'], len(data['mutants'])) + '  '.join('%s=%d' % (k, len(v)) for k, v in sorted(by.items())))
    for m in by.get('survived', []):
        print('SURVIVED %s %s:%d [%s] %s  %r -> %r' % (m['id'], m['file'], m['line'], m['func'], m['kind'], m['old'][:70], m['new'][:70]))


if __name__ == '__main__':
    ap = argparse.ArgumentParser()
    ap.add_argument('phase', choices=['gen', 'tests', 'checks', 'report'])
    ap.add_argument('--n', type=int, default=200)
    ap.add_argument('--seed', type=int, default=1)
    ap.add_argument('--jobs', type=int, default=6)
    ap.add_argument('--only', nargs='*')
    a = ap.parse_args()
    if a.phase == 'gen':
        gen(a.n, a.seed)
    elif a.phase == 'tests':
        phase_tests(a.jobs)
    elif a.phase == 'checks':
        phase_checks(a.only)
    else:
        report()

#!/bin/bash
# tools/verify_seed.sh <worktree> : confirm an independently written breaking change
# (suite passes with the patch; demo fails with it and passes without it). Runs in a private network namespace
# because the circus test-suite uses fixed ports.
wt=$1
if [ -z "$IN_NS" ]; then exec unshare -n env IN_NS=1 "$0" "$@"; fi
ip link set lo up 2>/dev/null
cd $wt || exit 2
demo=$(ls SEED/demo*.py | head -1)
run_demo() { if [[ "$demo" == *test* ]]; then timeout 300 /venv/bin/python -m pytest -q -p no:cacheprovider -p no:hypothesispytest "$demo" >/dev/null 2>&1; else timeout 300 /venv/bin/python "$demo" >/dev/null 2>&1; fi; echo $?; }
echo "circus from: $(/venv/bin/python -c 'import circus; print(circus.__file__)')"
echo "demo with patch:    exit=$(run_demo)"
git diff -- circus > /tmp/$$.patch
git checkout -q -- circus
echo "demo without patch: exit=$(run_demo)"
git apply /tmp/$$.patch; rm -f /tmp/$$.patch
timeout 1500 /venv/bin/python -m pytest -q -p no:cacheprovider -p no:hypothesispytest --timeout=900 \
  --deselect tests/test_process.py::TestProcess::test_streams --deselect tests/test_watcher.py::TestWatcher::test_max_age 2>&1 | tail -1

#!/bin/bash
# tools/run_all.sh [quick|thorough] : runs every registered check, validates evidence, prints a summary
tier=${1:-quick}
cd "$(dirname "$0")/.."; export VERIF_EVIDENCE_DIR="$PWD/evidence"
fail=0
for id in $(/venv/bin/python -c "import json; print(' '.join(c['property_id'] for c in json.load(open('MANIFEST.json'))['checks']))"); do
  t0=$(date +%s)
  out=$(./check $id --tier $tier 2>&1); rc=$?
  t1=$(date +%s)
  echo "$id rc=$rc $((t1-t0))s :: $(echo "$out" | tail -1 | cut -c1-160)"
  if [ $rc -ne 0 ]; then fail=1; echo "$out" | grep -A3 "^VIOLATION" | head -12; fi
  python3-vt -c "
import json,jsonschema,sys
jsonschema.validate(json.load(open('evidence/$id.json')), json.load(open('/root/.vp/EVIDENCE.schema.json')))" || { echo "$id: evidence invalid"; fail=1; }
done
python3-vt -c "
import json,jsonschema
jsonschema.validate(json.load(open('MANIFEST.json')), json.load(open('/root/.vp/MANIFEST.schema.json')))" || fail=1
exit $fail

#!/venv/bin/python
"""tools/keep_seed.py <worktree> <seed-name> <property> <caught_by> <needs...>
Archives an independently written breaking change under seeded/<seed-name>/ after it was confirmed."""
import json, os, shutil, subprocess, sys
wt, name, prop, caught = sys.argv[1:5]
needs = ' '.join(sys.argv[5:])
d = os.path.join('/verif/seeded', name)
os.makedirs(d, exist_ok=True)
patch = subprocess.check_output(['git', '-C', wt, 'diff', '--', 'circus']).decode()
open(os.path.join(d, 'patch.diff'), 'w').write(patch)
for f in os.listdir(os.path.join(wt, 'SEED')):
    if f.startswith('demo') or f == 'README.md':
        shutil.copy(os.path.join(wt, 'SEED', f), os.path.join(d, f))
base = subprocess.check_output(['git', '-C', wt, 'rev-parse', '--short', 'HEAD']).decode().strip()
meta = {'breaks_property': prop, 'needs_to_manifest': needs, 'caught_by': caught, 'base_commit_of_patch': base,
        'what_was_run': ['existing suite on the patched worktree (all pass except the baseline-known test_streams / flaky test_max_age)',
                         'demo with and without the patch (fails / passes)',
                         'VERIF_REPO=<patched worktree> /verif/check <id> --tier quick (exit 1 with the clause above) and on the unpatched tree (exit 0)'],
        'files': sorted(os.listdir(d))}
json.dump(meta, open(os.path.join(d, 'meta.json'), 'w'), indent=1)
print('kept', d, len(patch.splitlines()), 'patch lines')

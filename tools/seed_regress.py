#!/venv/bin/python
"""tools/seed_regress.py [name-prefix ...] : re-apply every archived seeded change to the CURRENT /repo HEAD (in a scratch
worktree under /tmp/wt) and run the quick checks that are recorded as catching it; reports caught / MISSED / patch does
not apply any more (the code it touched has been repaired or rewritten since)."""
import json, os, re, subprocess, sys
ROOT = '/verif/seeded'
PART = os.environ.get('SEEDREG_PART', '')          # 'i/n': this instance takes every n-th seed, starting with the i-th
WT = '/tmp/wt/seedreg' + PART.replace('/', 'of')
want = sys.argv[1:]
os.makedirs('/tmp/wt', exist_ok=True)
out = []
for idx, name in enumerate(sorted(os.listdir(ROOT))):
    d = os.path.join(ROOT, name)
    if PART and idx % int(PART.split('/')[1]) != int(PART.split('/')[0]):
        continue
    if not os.path.isdir(d) or (want and not any(name.startswith(w) for w in want)):
        continue
    meta = json.load(open(os.path.join(d, 'meta.json')))
    props = re.findall(r'C\d\d', meta.get('caught_by', '')) or [meta['breaks_property']]
    props = list(dict.fromkeys(props))
    subprocess.run(['git', '-C', '/repo', 'worktree', 'remove', '--force', WT], capture_output=True)
    subprocess.run(['git', '-C', '/repo', 'worktree', 'add', '-q', WT, 'HEAD'], check=True)
    try:
        r = subprocess.run(['git', '-C', WT, 'apply', os.path.join(d, 'patch.diff')], capture_output=True, text=True)
        if r.returncode != 0:
            out.append((name, 'n/a', 'patch does not apply to HEAD'))
            print(name, 'n/a', flush=True)
            continue
        verdict = 'MISSED'
        for p in props:
            env = dict(os.environ, VERIF_REPO=WT, VERIF_EVIDENCE_DIR=WT + '-ev/evidence', VERIF_SKIP_CONFORMANCE='1')
            try:
                c = subprocess.run(['/verif/check', p], env=env, capture_output=True, text=True, timeout=2400)
                if c.returncode != 0 and 'VIOLATION property=' in c.stdout:
                    verdict = 'caught by %s' % p
                    break
            except subprocess.TimeoutExpired:
                verdict = 'TIMEOUT in %s' % p
                break
        out.append((name, verdict, ','.join(props)))
        print(name, verdict, flush=True)
    finally:
        subprocess.run(['git', '-C', '/repo', 'worktree', 'remove', '--force', WT], capture_output=True)
json.dump(out, open(WT + '.json', 'w'), indent=0)
print('caught=%d missed=%d n/a=%d' % (sum(1 for x in out if x[1].startswith('caught')), sum(1 for x in out if x[1] in ('MISSED',) or x[1].startswith('TIMEOUT')),
                                      sum(1 for x in out if x[1] == 'n/a')))

#!/venv/bin/python
"""Mutation helper: tools/mut.py <CHECK[,CHECK..]> <file> <old> <new> [--tier quick]
Copies /repo/circus to a scratch dir, replaces the (unique) occurrence of <old> by <new> in <file>,
runs the checks against the copy (VERIF_REPO) and reports exit codes.  /repo is never touched."""
import os, shutil, subprocess, sys, tempfile
checks, rel, old, new = sys.argv[1:5]
tier = sys.argv[6] if len(sys.argv) > 6 else 'quick'
d = tempfile.mkdtemp(prefix='mutrepo-')
try:
    shutil.copytree('/repo/circus', os.path.join(d, 'circus'))
    p = os.path.join(d, rel)
    s = open(p).read()
    if s.count(old) != 1:
        print('pattern occurs %d times in %s' % (s.count(old), rel)); sys.exit(2)
    open(p, 'w').write(s.replace(old, new))
    for c in checks.split(','):
        env = dict(os.environ, VERIF_REPO=d, VERIF_EVIDENCE_DIR=os.path.join(d, 'evidence'))
        r = subprocess.run(['/verif/check', c, '--tier', tier], env=env, capture_output=True, text=True)
        lines = [l for l in r.stdout.splitlines() if l.startswith('VIOLATION') or l.startswith('  clause') or l.startswith(c)]
        print('== %s exit=%d' % (c, r.returncode))
        for l in lines[:8]:
            print('   ', l[:300])
        if r.returncode not in (0, 1):
            print(r.stdout[-1500:], r.stderr[-1500:])
finally:
    shutil.rmtree(d, ignore_errors=True)

#!/venv/bin/python
"""Regenerates MANIFEST.json from props/*.py metadata (run after adding a property)."""
import importlib
import json
import os
import sys

HERE = os.path.dirname(os.path.dirname(os.path.abspath(__file__)))
sys.path.insert(0, HERE)
sys.path.insert(0, '/repo')

ALL = ['C%02d' % i for i in range(1, 21)]
checks, na = [], []
PENDING = set(open(os.path.join(HERE, 'tools', 'pending.txt')).read().split()) if os.path.exists(os.path.join(HERE, 'tools', 'pending.txt')) else set()
for pid in ALL:
    path = os.path.join(HERE, 'props', pid.lower() + '.py')
    if not os.path.exists(path) or pid in PENDING:
        na.append({'property_id': pid, 'reason': 'check not built yet in this revision (planned, see DESIGN.md section 5)'})
        continue
    mod = importlib.import_module('props.' + pid.lower())
    if getattr(mod, 'NOT_READY', False):
        na.append({'property_id': pid, 'reason': mod.NOT_READY})
        continue
    checks.append({
        'property_id': pid,
        'quick_cmd': './check %s --tier quick' % pid,
        'thorough_cmd': './check %s --tier thorough' % pid,
        'evidence_file': 'evidence/%s.json' % pid,
        'replay_cmd_template': './check %s --replay {path}' % pid,
        'engine': 'vt',
        'level_claimed': {
            'category': getattr(mod, 'LEVEL', 'model_checking'),
            'text': getattr(mod, 'LEVEL_TEXT', mod.RULE),
            'design_ref': 'DESIGN.md section 5, %s' % pid,
        },
        'level_note': getattr(mod, 'LEVEL_NOTE',
                              'trusted base: vt/simkernel.py environment model (checked against the real kernel by '
                              'the conformance matrix), fake zmq frame capture, virtual clock; bounds in evidence.coverage.bounds'),
        'technique': getattr(mod, 'TECHNIQUE',
                             'stateless deviation-bounded exhaustive exploration of the real daemon code under a '
                             'controlled scheduler / simulated kernel'),
    })
man = {
    'version': 1,
    'setup_cmd': 'cd /verif && ./check --selfcheck',
    'hooks': {
        'guard': 'CIRCUS_VERIF',
        'enable': 'none needed: the checks import /repo\'s working tree directly and replace its seams '
                  '(time, os.waitpid, psutil.Popen, zmq) from outside; no source hook is committed',
        'baseline_off_cmd': 'cd /repo && env -u CIRCUS_VERIF /venv/bin/python -m pytest -ra -q -p no:cacheprovider --timeout=900 --continue-on-collection-errors',
        'source_commits': [],
        'add_only': True,
    },
    'engines': [{
        'name': 'vt', 'path': 'vt/',
        'serves_properties': [c['property_id'] for c in checks],
        'kind_free_text': 'hand-written explicit-state / stateless model checker for Python: virtual-time asyncio loop, '
                          'simulated kernel process table, deviation-bounded DFS over choice points, bounded-exhaustive input enumeration',
    }],
    'checks': checks,
    'not_applicable': na,
    'notes': 'All checks run /repo\'s current working tree in-process under /venv/bin/python. '
             'known_findings.json lists genuine defects recorded rather than repaired.',
}
with open(os.path.join(HERE, 'MANIFEST.json'), 'w') as f:
    json.dump(man, f, indent=1)
print('checks:', [c['property_id'] for c in checks])
print('not_applicable:', [n['property_id'] for n in na])
